#!/usr/bin/env python3
"""Builds selftest/<prop>/<name>.diff from the (file, old, new) table below: each entry is a small
property-breaking (or, with an ok_ name, harmless) edit of /repo. The edit is made on a scratch copy, diffed,
and the patch stored. Usage: mkselftest.py [prop ...]   (then run tools/thorough.py <prop> to see that each one
is flagged). Entries whose old text is not found are reported and skipped."""
import os, subprocess, sys, tempfile, shutil

V = os.path.dirname(os.path.dirname(os.path.abspath(__file__)))
REPO = '/repo'
M = []


def m(prop, name, file, old, new):
    M.append((prop, name, file, old, new))


# ---- C16
VS = 'gemmill/types/validator_set.go'
m('C16', 'less_flipped', VS, 'return int64(ac) > int64(o.(accumComparable))', 'return int64(ac) < int64(o.(accumComparable))')
m('C16', 'decrement_off_by_one', VS, 'mostest.Accum -= valSet.TotalVotingPower()', 'mostest.Accum -= valSet.TotalVotingPower() - 1')
m('C16', 'rounds_start_at_one', VS, 'for i := int64(0); i < times; i++ {', 'for i := int64(1); i < times; i++ {')
m('C16', 'batched_increment', VS, '''	for i := int64(0); i < times; i++ {
		valSet.incrementAccumOnce()
	}''', '''	if times > 0 {
		valSet.incrementAccumOnce()
		for _, val := range valSet.Validators {
			val.Accum += val.VotingPower * (times - 1)
		}
	}''')
m('C16', 'copy_shares_validators', VS, '''		// NOTE: must copy, since IncrementAccum updates in place.
		validators[i] = val.Copy()''', '''		validators[i] = val''')
m('C16', 'add_allows_duplicate', VS, '''func (valSet *ValidatorSet) Add(val *Validator) (added bool) {
	val = val.Copy()
	idx := sort.Search(len(valSet.Validators), func(i int) bool {
		return bytes.Compare(val.Address, valSet.Validators[i].Address) <= 0
	})''', '''func (valSet *ValidatorSet) Add(val *Validator) (added bool) {
	val = val.Copy()
	idx := sort.Search(len(valSet.Validators), func(i int) bool {
		return bytes.Compare(val.Address, valSet.Validators[i].Address) < 0
	})''')
m('C16', 'remove_keeps_proposer_cache', VS, '''		valSet.Validators = newValidators
		// Invalidate cache
		valSet.proposer = nil
		valSet.totalVotingPower = 0
		return removedVal, true''', '''		valSet.Validators = newValidators
		// Invalidate cache
		valSet.totalVotingPower = 0
		return removedVal, true''')
m('C16', 'round_skip_increments_shared_set', 'gemmill/consensus/pbft/state.go', '''		validators = validators.Copy()
		validators.IncrementAccum(round - cs.Round)''', '''		validators.IncrementAccum(round - cs.Round)''')
m('C16', 'round_skip_increments_once', 'gemmill/consensus/pbft/state.go', 'validators.IncrementAccum(round - cs.Round)', 'validators.IncrementAccum(1)')
m('C16', 'compare_accum_ties_reversed', 'gemmill/types/validator.go', '''		if bytes.Compare(v.Address, other.Address) < 0 {
			return v
		} else if bytes.Compare(v.Address, other.Address) > 0 {
			return other''', '''		if bytes.Compare(v.Address, other.Address) < 0 {
			return other
		} else if bytes.Compare(v.Address, other.Address) > 0 {
			return v''')
m('C16', 'ok_rename_local', VS, '''	mostest := validatorsHeap.Peek().(*Validator)
	valSet.proposer = mostest
	mostest.Accum -= valSet.TotalVotingPower()''', '''	best := validatorsHeap.Peek().(*Validator)
	valSet.proposer = best
	best.Accum -= valSet.TotalVotingPower()''')
m('C16', 'ok_reorder_cache_reset', VS, '''		valSet.Validators = newValidators
		// Invalidate cache
		valSet.proposer = nil
		valSet.totalVotingPower = 0
		return removedVal, true''', '''		valSet.Validators = newValidators
		// Invalidate cache
		valSet.totalVotingPower = 0
		valSet.proposer = nil
		return removedVal, true''')

# ---- C17 part set
PS = 'gemmill/types/part_set.go'
m('C17', 'addpart_negative_index', PS, 'if part.Index < 0 || part.Index >= ps.total {', 'if part.Index >= ps.total {')
m('C17', 'addpart_skip_proof', PS, '''	if verify {
		if !part.Proof.Verify(part.Index, ps.total, part.Hash(), ps.Hash()) {''', '''	if verify && part.Index > 0 {
		if !part.Proof.Verify(part.Index, ps.total, part.Hash(), ps.Hash()) {''')

# ---- C15 vote set
VSET = 'gemmill/types/vote_set.go'

# ---- C05 / C09 executor
m('C05', 'begin_once_per_block', 'chain/app/evm/verifycpuparallel.go', '''	size := len(txs)
	for i := 0; i < size; i++ {
		lsize := len(appTxQ[i])
		var oriBytes []byte
		var err error
		exec, end := beginExec()
''', '''	size := len(txs)
	exec, end := beginExec()
	for i := 0; i < size; i++ {
		lsize := len(appTxQ[i])
		var oriBytes []byte
		var err error
''')

# ---- C20 transport
SC = 'gemmill/p2p/secret_connection.go'
m('C20', 'write_chunk_too_large', SC, '''		if dataMaxSize < len(data) {
			chunk = data[:dataMaxSize]
			data = data[dataMaxSize:]''', '''		if dataMaxSize+1 < len(data) {
			chunk = data[:dataMaxSize]
			data = data[dataMaxSize:]''')

# ---- C06 write order / recovery
ST = 'gemmill/consensus/pbft/state.go'
m('C06', 'state_saved_before_apply', ST, """	err := stateCopy.ApplyBlock(cs.evsw, block, blockParts.Header(), cs.mempool, cs.Round)
	if err != nil {
		// TODO!
		log.Error("apply block", zap.Error(err))
	}
""", """	stateCopy.Save()
	err := stateCopy.ApplyBlock(cs.evsw, block, blockParts.Header(), cs.mempool, cs.Round)
	if err != nil {
		// TODO!
		log.Error("apply block", zap.Error(err))
	}
""")
m('C06', 'height_marker_before_seen_commit', 'gemmill/blockchain/store.go', """	seenCommitBytes := wire.BinaryBytes(seenCommit)
	bs.db.Set(calcSeenCommitKey(height), seenCommitBytes)

	// Save new BlockStoreStateJSON descriptor
	BlockStoreStateJSON{Height: height, OriginHeight: bs.originHeight}.Save(bs.db)
""", """	// Save new BlockStoreStateJSON descriptor
	BlockStoreStateJSON{Height: height, OriginHeight: bs.originHeight}.Save(bs.db)
	seenCommitBytes := wire.BinaryBytes(seenCommit)
	bs.db.Set(calcSeenCommitKey(height), seenCommitBytes)
""")
m('C06', 'app_commit_despite_exec_error', 'gemmill/state/execution.go', """	err := s.ExecBlock(eventSwitch, block, partsHeader, round)
	if err != nil {
		return errors.New(gcmn.Fmt("Exec failed for application: %v", err))
	}
""", """	err := s.ExecBlock(eventSwitch, block, partsHeader, round)
	if err != nil {
		log.Error("exec failed", zap.Error(err))
	}
""")
# (equivalent: the cases store < app and store == app are handled by earlier branches)
m('C06', 'ok_equivalent_replay_condition', 'gemmill/angine.go', """	} else if storeBlockHeight == appBlockHeight+1 &&
		storeBlockHeight == stateBlockHeight+1 {""", """	} else if storeBlockHeight <= appBlockHeight+1 &&
		storeBlockHeight == stateBlockHeight+1 {""")
m('C06', 'recovery_replays_when_app_in_sync', 'gemmill/angine.go', """	} else if storeBlockHeight == appBlockHeight {
		// We ran Commit, but if we crashed before state.Save(),""", """	} else if storeBlockHeight == appBlockHeight && storeBlockHeight == stateBlockHeight {
		// We ran Commit, but if we crashed before state.Save(),""")
m('C06', 'marker_before_receipts', 'chain/app/evm/evm.go', """	rHash, err := app.SaveReceipts()
	if err != nil {
		log.Error("application save receipts", zap.Error(err), zap.Int64("height", block.Height))
	}

	// the height marker is written last: a crash before it makes the node replay the block (and save its
	// receipts again) instead of reporting a height whose receipts were never stored
	app.SaveLastBlock(LastBlockInfo{Height: height, AppHash: appHash.Bytes()})
""", """	app.SaveLastBlock(LastBlockInfo{Height: height, AppHash: appHash.Bytes()})

	rHash, err := app.SaveReceipts()
	if err != nil {
		log.Error("application save receipts", zap.Error(err), zap.Int64("height", block.Height))
	}
""")

# ---- C07 write-ahead log
m('C07', 'handle_before_log', ST, """		case mi = <-cs.peerMsgQueue:
			cs.wal.Save(mi)
			// handles proposals, block parts, votes
			// may generate internal events (votes, complete proposals, 2/3 majorities)
			cs.handleMsg(mi, rs)""", """		case mi = <-cs.peerMsgQueue:
			// handles proposals, block parts, votes
			// may generate internal events (votes, complete proposals, 2/3 majorities)
			cs.handleMsg(mi, rs)
			cs.wal.Save(mi)""")
m('C07', 'timeout_not_logged', ST, """			cs.wal.Save(ti)
			// if the timeout is relevant to the rs""", """			// if the timeout is relevant to the rs""")
m('C07', 'record_not_flushed', 'gemmill/consensus/pbft/wal.go', """	// TODO: only flush when necessary
	if err := wal.group.Flush(); err != nil {
		gcmn.PanicQ(gcmn.Fmt("Error flushing consensus wal buf to file. Error: %v \\n", err))
	}
}

func (wal *WAL) writeHeight""", """}

func (wal *WAL) writeHeight""")
m('C07', 'replay_mode_left_on', 'gemmill/consensus/pbft/replay.go', """	defer func() { cs.replayMode = false }()
""", """""")
# (equivalent for the property: the zero message then falls into the 'unknown type' error branch and reaches no handler)
m('C07', 'ok_undecodable_line_falls_to_unknown_type', 'gemmill/consensus/pbft/replay.go', """	if err != nil {
		fmt.Println("MsgBytes:", msgBytes, string(msgBytes))
		return fmt.Errorf("Error reading json data: %v", err)
	}
""", """	if err != nil {
		fmt.Println("MsgBytes:", msgBytes, string(msgBytes))
	}
""")

# ---- C19 transaction pool
TS = 'chain/app/evm/tx_sort.go'
TP = 'chain/app/evm/tx_pool.go'
m('C19', 'ready_run_allows_gaps', TS, "for next := (*m.index)[0]; m.index.Len() > 0 && (*m.index)[0] == next; next++ {", "for next := (*m.index)[0]; m.index.Len() > 0 && (*m.index)[0] >= next; next++ {")
m('C19', 'forward_drops_current_nonce', TS, "for m.index.Len() > 0 && (*m.index)[0] < threshold {", "for m.index.Len() > 0 && (*m.index)[0] <= threshold {")
m('C19', 'add_overwrites_same_nonce', TS, "if _, exist := m.items[tx.Nonce()]; exist {", "if old, exist := m.items[tx.Nonce()]; exist && old == tx {")
m('C19', 'ready_ignores_count', TS, """		if ready.Len() == count {
			break
		}""", """		if ready.Len() > count {
			break
		}""")
m('C19', 'promote_skips_forward', TP, """		oldTxs := waiting.Forward(nonce)
		for _, otx := range oldTxs {
			delete(tp.all, otx.Hash())
		}
""", """""")
m('C19', 'promote_from_next_nonce', TP, "txs := waiting.ReadyN(nonce, tp.pendingLimit-pendingTxCount)", "txs := waiting.ReadyN(nonce+1, tp.pendingLimit-pendingTxCount)")
m('C19', 'stale_nonce_accepted', TP, """	if currentNonce > tx.Nonce() {
		return fmt.Errorf("nonce(%d) different with getNonce(%d)", tx.Nonce(), currentNonce)
	}
""", """""")
m('C19', 'waiting_limit_off', TP, "if waitingTxCount >= tp.waitingLimit {", "if waitingTxCount > tp.waitingLimit {")
m('C19', 'ok_rename_local_in_forward', TS, """		nonce := heap.Pop(m.index).(uint64)
		removed = append(removed, m.items[nonce])
		delete(m.items, nonce)""", """		n := heap.Pop(m.index).(uint64)
		removed = append(removed, m.items[n])
		delete(m.items, n)""")

# ---- harmless refactorings (must NOT be flagged)
m('C17', 'ok_count_before_store', PS, """	ps.parts[part.Index] = part
	ps.partsBitArray.SetIndex(part.Index, true)
	ps.count++
	return true, nil""", """	ps.count++
	idx := part.Index
	ps.parts[idx] = part
	ps.partsBitArray.SetIndex(idx, true)
	return true, nil""")
m('C03', 'ok_reorder_field_updates', 'gemmill/types/priv_validator.go', """	privVal.LastHeight = height
	privVal.LastRound = round
	privVal.LastStep = step
	privVal.LastSignature = signature
	privVal.LastSignBytes = signBytes
	if err := privVal.save(); err != nil {""", """	privVal.LastSignBytes = signBytes
	privVal.LastSignature = signature
	privVal.LastStep = step
	privVal.LastRound = round
	privVal.LastHeight = height
	if err := privVal.save(); err != nil {""")
m('C06', 'ok_commit_bytes_computed_earlier', 'gemmill/blockchain/store.go', """	// Save block meta
	meta := types.NewBlockMeta(block, blockParts)
	metaBytes := wire.BinaryBytes(meta)
	bs.db.Set(calcBlockMetaKey(height), metaBytes)
""", """	// Save block meta
	seenCommitBytes0 := wire.BinaryBytes(seenCommit)
	_ = seenCommitBytes0
	meta := types.NewBlockMeta(block, blockParts)
	metaBytes := wire.BinaryBytes(meta)
	bs.db.Set(calcBlockMetaKey(height), metaBytes)
""")
m('C20', 'ok_write_chunk_len_local', SC, """			n += len(chunk)""", """			sent := len(chunk)
			n += sent""")
m('C14', 'ok_rename_sig64', 'gemmill/plugin/admin_op.go', """			sig64 := crypto.SetNodeSignature(sig.Signature)
			if sigPubKey.VerifyBytes(msg, sig64) {""", """			nodeSig := crypto.SetNodeSignature(sig.Signature)
			if sigPubKey.VerifyBytes(msg, nodeSig) {""")
m('C07', 'ok_height_check_split', 'gemmill/consensus/pbft/wal.go', """		if edrs.Step == RoundStepNewHeight.String() {
			wal.writeHeight(edrs.Height)
		}""", """		newHeight := edrs.Step == RoundStepNewHeight.String()
		if newHeight {
			wal.writeHeight(edrs.Height)
		}""")

# ---- C11 journal
JR = 'eth/core/state/journal.go'
SO = 'eth/core/state/state_object.go'
SD = 'eth/core/state/statedb.go'
m('C11', 'revert_forwards', JR, "for i := len(j.entries) - 1; i >= snapshot; i-- {", "for i := snapshot; i < len(j.entries); i++ {")
m('C11', 'revert_keeps_snapshot_entry', JR, "for i := len(j.entries) - 1; i >= snapshot; i-- {", "for i := len(j.entries) - 1; i > snapshot; i-- {")
m('C11', 'nonce_restored_plus_one', JR, "s.getStateObject(*ch.account).setNonce(ch.prev)", "s.getStateObject(*ch.account).setNonce(ch.prev + 1)")
m('C11', 'nonce_journalled_after_change', SO, """	self.db.journal.append(nonceChange{
		account: &self.address,
		prev:    self.data.Nonce,
	})
	self.setNonce(nonce)""", """	self.setNonce(nonce)
	self.db.journal.append(nonceChange{
		account: &self.address,
		prev:    self.data.Nonce,
	})""")
m('C11', 'balance_journalled_by_reference', SO, "prev:    new(big.Int).Set(self.data.Balance),", "prev:    self.data.Balance,")
m('C11', 'refund_not_journalled', SD, """func (self *StateDB) AddRefund(gas uint64) {
	self.journal.append(refundChange{prev: self.refund})
	self.refund += gas""", """func (self *StateDB) AddRefund(gas uint64) {
	self.refund += gas""")
m('C11', 'later_revisions_kept', SD, "self.validRevisions = self.validRevisions[:idx]", "self.validRevisions = self.validRevisions[:idx+1]")
m('C11', 'ok_rename_loop_entry', JR, """		// Undo the changes made by the operation
		j.entries[i].revert(statedb)
""", """		// Undo the changes made by the operation
		entry := j.entries[i]
		entry.revert(statedb)
""")


def main():
    want = set(sys.argv[1:])
    for prop, name, file, old, new in M:
        if want and prop not in want:
            continue
        src = open(os.path.join(REPO, file)).read()
        if src.count(old) != 1:
            print(f'SKIP {prop}/{name}: old text found {src.count(old)} times in {file}')
            continue
        d = tempfile.mkdtemp(prefix='verif_mk_')
        try:
            a = os.path.join(d, 'a', file)
            b = os.path.join(d, 'b', file)
            os.makedirs(os.path.dirname(a))
            os.makedirs(os.path.dirname(b))
            open(a, 'w').write(src)
            open(b, 'w').write(src.replace(old, new))
            r = subprocess.run(['diff', '-u', os.path.join('a', file), os.path.join('b', file)], cwd=d, capture_output=True, text=True)
            out = os.path.join(V, 'selftest', prop)
            os.makedirs(out, exist_ok=True)
            open(os.path.join(out, name + '.diff'), 'w').write(r.stdout)
            print(f'wrote selftest/{prop}/{name}.diff')
        finally:
            shutil.rmtree(d, ignore_errors=True)


if __name__ == '__main__':
    main()
