#!/usr/bin/env python3
"""Regenerates /verif/MANIFEST.json from the table below (claimed checks) and properties.jsonl."""
import json, subprocess, os
V = '/verif'
props = [json.loads(l) for l in open(f'{V}/properties.jsonl')]

TECH = "contract-based deductive verification: weakest-precondition/symbolic-execution VCs generated from go/ssa of /repo on every run, discharged by z3 5.1.0 / z3 4.8.12 / cvc5 1.0.3"

CLAIMED = {
 'C02': dict(
   text="Proof level: ConsensusState.ValidateBlock returns nil only if chain id, height = last+1, previous-block id, app hash, receipts hash, tx count, data hash, last-commit hash and validators hash all match the state / the committed content, the proposer is a validator, and (height > 1) the embedded last commit has one entry per validator of the previous set and passes VerifyCommit (per-index tally of validly signed matching precommits > 2/3, see C15); Block.Hash/FillHeader never overwrite a present commitment; finalizeCommit stores and applies only the validated proposal block whose hash equals the +2/3 precommit majority of the commit round, with the seen commit built from exactly that round's precommits; State.SetBlockAndValidators links LastBlockID to the applied header.",
   note="Assumed: hash functions and reflective encoders (Header.Hash, Data.Hash, Commit.Hash, ValidatorSet.Hash are trusted to be functions of their inputs); the block verifier installed in State is the consensus state's ValidateBlock (naming predicate blockValidFor); BlockStore.SaveBlock/State.ApplyBlock bodies are not examined here; object invariants of vote sets assumed at method entry.",
   ref="6 (C02)"),
 'C04': dict(
   text="Proof level for the locking rules at every write and emission site: only enterPrecommit, addVote, updateToState and SwitchToConsensus store to LockedRound/LockedBlock/LockedBlockParts (structural, whole package); in enterPrecommit every lock change needs a polka of exactly this round, a new lock is the validated proposal block hashing to the polka, an unlock needs a polka for nil or another block, and a precommit for a block is emitted only for the polka block which is then the locked block of this round; in addVote an unlock needs a prevote polka of a round in (LockedRound, Round] for something else; defaultDoPrevote emits exactly one prevote: the locked block if locked, else the proposal block only if it validates; enterCommit is entered from addVote only on a +2/3 precommit majority for a block in the vote's round; finalizeCommit saves/applies only that block; signAddVote queues a vote only if the signer agreed.",
   note="Assumed: preservation of the light consensus-state invariant wfCS by enterNewRound/enterPropose/enterPrevote/enterPrevoteWait/enterPrecommitWait/enterCommit/updateToState (trusted contracts: their bodies are not examined, only their write sites through the structural writers check); function-valued hooks (doPrevote, setProposal, decideProposal) hold the default methods; events/logging assign nothing; no concurrency; the cross-round/temporal reading of the property (\"in every later round\") follows from these per-call rules by the argument in design/C01-argument.md.",
   ref="6 (C04)"),
 'C08': dict(
   text="Proof level (absence of panics and state-preservation on rejection) for the consensus peer-input surface: handleMsg -> defaultSetProposal / addProposalBlockPart / tryAddVote -> addVote -> HeightVoteSet.AddVote -> VoteSet.AddVote/addVote/addVerifiedVote, PartSet.AddPart, Merkle proof verification, Block.ValidateBasic/ValidateCommit, Commit accessors, VerifyCommit, every BitArray operation used on peer-supplied arrays, and the per-peer gossip state updates (Apply*Message, SetHasProposal): implicit safety obligations (nil, index, slice, make, division, type assertion, explicit panics) for fully symbolic messages; rejected votes/proposals leave the round state unchanged; block decoding only from a complete part set with the size limit; part-count bounds before allocation; structural check that the connection goroutines recover.",
   note="Assumed: object invariants at method entry (vote sets, part sets, peer state); reflective decoder (wire.ReadBinary) does not panic; trusted enterX contracts as in C04; one obligation is undecided and not claimed (BitArray.PickRandom's unreachable panic needs bit-precise reasoning). Not covered: mempool/pex/blockchain reactors' Receive bodies, liveness (\"wedge\").",
   ref="6 (C08)"),
 'C03': dict(
   text="Proof level: every obligation generated from the contracts of the signer path is discharged on every run. signBytesHRS: signs only for a strictly later height/round/step, or re-releases the stored signature for byte-identical sign-bytes at the same step; releases nothing and leaves the durable record unchanged on error; the record (ghost dur*) equals the released signature before it is returned; memory equals the durable record. SignVote/SignProposal pass exactly (height, round, step(type), canonical sign bytes) and write the signature into the object only on success. save/WriteFileAtomic are verified against a ghost file system (rename last; error leaves the file untouched).",
   note="Assumed: os.Rename atomic and durable; ioutil.WriteFile/ReadFile as specified in contracts/std.spec; the JSON codec of the signer file round-trips (trusted-ensures on save links the file to the ghost record); Signer.Sign returns non-nil; no concurrency (mutex not modelled); real process kill points inside a write are outside.",
   ref="6 (C03)"),
 'C14': dict(
   text="Proof level: CheckMajor23 returns true exactly when the voting power of DISTINCT current validators with a valid signature over cmd.Msg exceeds 2/3 of the total (recursive tally over first valid occurrences, loop invariants with a ghost witness map); ExecTX reaches ProcessAdminOP only after CheckMajor23 returned true on the same request; ProcessAdminOP queues a change only for type changeValidator with sender == request address and nonce+1 == account nonce, and the queued change is the decoded signed message; ValidatorSet.Add/Update/Remove keep the set well-formed, invalidate the proposer/total-power caches and change the size as specified.",
   note="Assumed: JSON decoding of the request (ParseValidator trusted: result is a function of cmd.Msg); sort.Search-based lookup completeness (trusted-ensures on GetByAddress/HasAddress: not found => no validator has that address); validator addresses pairwise distinct (precondition uniqueAddrs); signature scheme (sigOK uninterpreted). Not covered: that every replica applies the change at the same height (follows from determinism of these functions, see C05).",
   ref="6 (C14)"),
 'C15': dict(
   text="Proof level: the vote set's representation invariant (sizes, per-block tallies well-formed and pairwise separate, majority block tallied >= quorum and dominated by the canonical votes) is inductive over addVote/addVerifiedVote; each validator's power is added to a tally at most once; a recorded majority never changes; maj23 is set exactly when the block's tally crosses T*2/3+1 with this vote; a vote is accepted only with matching step, index, address and a valid signature over its canonical sign-bytes; conflicts are returned; MakeCommit copies the votes for the majority block; VerifyCommit returns nil only if the per-index tally of validly signed matching precommits exceeds 2/3 of the total (lock-step recursive tally). Lemma quorumExact relates the code's integer expressions to 3s > 2T.",
   note="Assumed: signature scheme (sigOK uninterpreted), canonical sign-bytes are a function of (chainID,height,round,type,blockID) (extern contract of SignBytes), wire encoding of a PartSetHeader depends only on Total and hash bytes (axiom wirePSH), no concurrency. BlockID.Key injectivity is NOT proved (see DESIGN section 8).",
   ref="6 (C15)"),
 'C17': dict(
   text="Proof level for the part set: AddPart adds a part only for 0 <= Index < total into an empty slot, after the Merkle proof verified when verify is set, changes no other slot, counts once, never panics for any part; proof verification returns nil/false for negative or too large indices and non-positive totals; NewPartSetFromHeader/GetPart/Header/HasHeader as specified.",
   note="Assumed: hash functions uninterpreted; SimpleProof.Verify is a deterministic function of its arguments (trusted-ensures naming proofOK). Not covered here: Merkle soundness by induction, byte-exact reassembly (PartSetReader), proof generation.",
   ref="6 (C17)"),
}

NA = {
 'C10': "differential property over all EVM programs against an external reference implementation: no per-function contract within reach of the engine expresses it",
 'C12': "liveness/fairness and deadlock freedom over goroutine interleavings: temporal and scheduling properties are outside pre/postcondition reasoning; the engine models no concurrency",
}

m = {"version": 1, "setup_cmd": "./setup.sh",
 "hooks": {"guard": "verif",
           "enable": "go build -tags verif: the only guarded files are the comment-only contract files zz_verif_contracts.go (no executable code); checks load /repo with -tags=verif",
           "baseline_off_cmd": "sh -c \"$(jq -r .cmd /root/.vp/BASELINE.json)\"",
           "source_commits": [], "add_only": True},
 "engines": [{"name": "govc", "path": "engine", "serves_properties": sorted(CLAIMED),
              "kind_free_text": "VC generator over go/ssa (NaiveForm) of the real code + SMT (z3 5.1.0, z3 4.8.12, cvc5 1.0.3); contracts are //@ comments in /repo/**/zz_verif_contracts.go and /verif/contracts/*.spec"}],
 "checks": [], "not_applicable": [],
 "notes": "Exit codes: 0 all claimed obligations discharged (KNOWN-FINDING lines allowed), 1 VIOLATION, 2 the check itself could not run (does not occur on the unchanged tree)."}
try:
    out = subprocess.run(['git','-C','/repo','log','--format=%H %s'],capture_output=True,text=True).stdout.strip().split('\n')
    m['hooks']['source_commits'] = [l.split()[0] for l in out if ' verif:' in l]
except Exception: pass
for p in props:
    pid = p['id']
    if pid in CLAIMED:
        c = CLAIMED[pid]
        m['checks'].append({"property_id": pid, "quick_cmd": f"./check {pid} quick", "thorough_cmd": f"./check {pid} thorough",
          "evidence_file": f"evidence/{pid}.json", "replay_cmd_template": "./check replay {path}", "engine": "govc",
          "level_claimed": {"category": "proof", "text": c['text'], "design_ref": "DESIGN.md section " + c['ref']},
          "level_note": c['note'], "technique": TECH})
    else:
        m['not_applicable'].append({"property_id": pid, "reason": NA.get(pid, "check under construction in this session (see DESIGN.md section 6); not claimed until its obligations discharge on the unchanged tree")})
json.dump(m, open(f'{V}/MANIFEST.json','w'), indent=1)
print("checks:", [c['property_id'] for c in m['checks']])
