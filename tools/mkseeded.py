#!/usr/bin/env python3
"""Rewrites the seeded-changes table in DESIGN.md (between the SEEDED markers) from seeded/<name>/{meta.json,result.json}
and seeded/NOTES.json (what had to be strengthened before a change was caught)."""
import json, os, glob, re
V = os.path.dirname(os.path.dirname(os.path.abspath(__file__)))
notes = {}
try:
    notes = json.load(open(f'{V}/seeded/NOTES.json'))
except Exception:
    pass
rows = ['| seeded change | property | function changed | what it breaks (abridged) | caught by (check: failed obligation) | note |', '|---|---|---|---|---|---|']
for d in sorted(glob.glob(f'{V}/seeded/*/')):
    n = os.path.basename(d.rstrip('/'))
    try:
        m = json.load(open(d + 'meta.json'))
        r = json.load(open(d + 'result.json'))
    except Exception as e:
        continue
    fn = ', '.join(m.get('functions', []))[:60]
    summ = re.sub(r'\s+', ' ', m.get('summary', '') if isinstance(m.get('summary'), str) else ' '.join(m.get('summary', [])))[:170]
    caught = []
    for c, v in r.items():
        if v.get('violations', 0) > 0:
            ob = v.get('failed_obligations', '').split(';')[0]
            caught.append(f"{c}: `{ob}`")
        else:
            caught.append(f"{c}: not flagged")
    rows.append(f"| {n} | {m.get('property')} | `{fn}` | {summ} | {'<br>'.join(caught)} | {notes.get(n, '')} |")
table = '\n'.join(rows)
p = f'{V}/DESIGN.md'
s = open(p).read()
if '<!-- SEEDED:BEGIN -->' in s:
    s = re.sub(r'<!-- SEEDED:BEGIN -->.*?<!-- SEEDED:END -->', '<!-- SEEDED:BEGIN -->\n' + table + '\n<!-- SEEDED:END -->', s, flags=re.S)
else:
    s = s.replace('SEEDED_TABLE_PLACEHOLDER', '<!-- SEEDED:BEGIN -->\n' + table + '\n<!-- SEEDED:END -->')
open(p, 'w').write(s)
print(len(rows) - 2, 'seeded changes')
