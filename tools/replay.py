#!/usr/bin/env python3
"""./check replay <path>: reproduce a reported violation.

A replay file (written by bin/govc next to each VIOLATION line, or kept under findings/ and seeded/) names the
failed obligation and carries the verifier's output. Three ways to reproduce, in this order:

 1. "replay_test": Go source of an in-package test plus "replay_pkg" (directory under /repo). The test is
    injected with `go test -overlay` (nothing is written to /repo) and run against the real code; it FAILS when
    the property is violated.  exit 1 = reproduced on the real code, exit 0 = not reproduced.
 2. otherwise the obligation is re-generated from the current /repo and re-submitted to the solvers
    (bin/govc -func <function>): exit 1 if it still fails (with the solver's answer), exit 0 if it is discharged.

Exit 2: the replay file is unusable.
"""
import json, os, subprocess, sys, tempfile, shutil

V = os.path.dirname(os.path.dirname(os.path.abspath(__file__)))
REPO = os.environ.get('VERIF_REPO', '/repo')
ENV = dict(os.environ, GOFLAGS='-mod=mod', GOPROXY='off', GOSUMDB='off', GOTOOLCHAIN='local')


def run_test(pkg, src, name_hint):
    d = tempfile.mkdtemp(prefix='verif_replay_')
    try:
        tf = os.path.join(d, 'zz_verif_replay_test.go')
        open(tf, 'w').write(src)
        ov = os.path.join(d, 'ov.json')
        json.dump({"Replace": {os.path.join(REPO, pkg, 'zz_verif_replay_test.go'): tf}}, open(ov, 'w'))
        cmd = ['go', 'test', '-overlay', ov, '-vet=off', '-count=1', '-timeout', '120s', '-run', name_hint, './' + pkg]
        p = subprocess.run(cmd, cwd=REPO, env=ENV, capture_output=True, text=True)
        out = (p.stdout + p.stderr)[-4000:]
        return p.returncode, out
    finally:
        shutil.rmtree(d, ignore_errors=True)


def main():
    if len(sys.argv) != 2:
        print(__doc__)
        return 2
    try:
        rec = json.load(open(sys.argv[1]))
    except Exception as e:
        print('cannot read replay file:', e)
        return 2
    prop = rec.get('property', '?')
    ob = rec.get('obligation', '?')
    print(f'replay property={prop} obligation={ob}')
    if rec.get('replay_test') and rec.get('replay_pkg'):
        rc, out = run_test(rec['replay_pkg'], rec['replay_test'], rec.get('replay_run', 'TestVerifReplay'))
        print(out)
        if rc != 0 and ('FAIL' in out or 'panic' in out):
            print(f'REPRODUCED on the real code: property={prop} obligation={ob}')
            return 1
        if rc != 0:
            print('the replay test could not be built or run')
            return 2
        print('not reproduced: the replay test passes on the current tree')
        return 0
    # re-decide the obligation on the current tree
    func = ob.split('/')[0]
    if func.startswith('lemma:') or not func:
        func = ''
    cmd = [os.path.join(V, 'bin', 'govc'), '-prop', prop, '-no-evidence', '-v']
    if func:
        # the engine matches on a substring of the function key: use the method/function name
        name = func.split(').')[-1] if ').' in func else func.split('.')[-1]
        cmd += ['-func', name]
    p = subprocess.run(cmd, cwd=V, env=ENV, capture_output=True, text=True)
    lines = (p.stdout + p.stderr).splitlines()
    still = [l for l in lines if ob in l and ('failed obligation' in l or l.strip().startswith(('sat', 'unknown', 'timeout')))]
    for l in lines:
        if l.startswith(('VIOLATION', 'KNOWN-FINDING', 'property=')) or ob in l:
            print(l[:400])
    if still:
        print(f'REPRODUCED (obligation still fails on the current tree; solver answer above; recorded output follows)')
        print(str(rec.get('solver_output', ''))[:2000])
        return 1
    print('not reproduced: the obligation is discharged (or no longer generated) on the current tree')
    return 0


if __name__ == '__main__':
    sys.exit(main())
