#!/usr/bin/env python3
"""Rewrites the per-property numbers table in DESIGN.md (between the STATS markers) from evidence/*.json."""
import json, os, glob, re
V = os.path.dirname(os.path.dirname(os.path.abspath(__file__)))
man = json.load(open(f'{V}/MANIFEST.json'))
rows = ['| id | functions under contract | obligations | discharged | known findings | undecided | trusted/assumed entries | self-test (flagged / passed) |', '|---|---|---|---|---|---|---|---|']
for c in man['checks']:
    pid = c['property_id']
    try:
        e = json.load(open(f'{V}/evidence/{pid}.json'))
    except Exception:
        continue
    cov = e['coverage']
    st = cov.get('selftest', {})
    fl = sum(1 for p in st.get('patches', []) if p['expect'] == 'fail' and p.get('ok'))
    ps = sum(1 for p in st.get('patches', []) if p['expect'] == 'pass' and p.get('ok'))
    rows.append(f"| {pid} | {len(cov.get('functions_under_contract', []))} | {cov.get('obligations')} | {cov.get('discharged')} | {len(cov.get('known_finding_obligations') or [])} | {len(cov.get('undecided') or [])} | {len(cov.get('trusted_base', []))} | {fl} / {ps} |")
for n in man['not_applicable']:
    rows.append(f"| {n['property_id']} | not applicable | | | | | | |")
table = '\n'.join(rows)
p = f'{V}/DESIGN.md'
s = open(p).read()
blk = '<!-- STATS:BEGIN -->\n' + table + '\n<!-- STATS:END -->'
if '<!-- STATS:BEGIN -->' in s:
    s = re.sub(r'<!-- STATS:BEGIN -->.*?<!-- STATS:END -->', blk, s, flags=re.S)
else:
    s = s.replace("The full list of functions and named obligations is in `design/coverage.md`.", "The full list of functions and named obligations is in `design/coverage.md`.\nNumbers of the last committed run (regenerate with `tools/mkstats.py`):\n\n" + blk)
open(p, 'w').write(s)
print(len(rows) - 2, 'rows')
