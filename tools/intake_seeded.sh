#!/bin/bash
# intake_seeded.sh <ID> [name]: copy /tmp/wt_<ID>/_mutant into seeded/<ID>[_name]/, apply the patch to /repo, run the quick
# checks given in $CHECKS (default: the property itself), record the outcome in result.json, undo the patch.
set -u
id=$1; name=${2:-$1}
src=${SRC:-/tmp/wt_$id/_mutant}
dst=/verif/seeded/$name
mkdir -p $dst
cp $src/patch.diff $src/meta.json $dst/ 2>/dev/null
for f in $src/demo*; do [ -e "$f" ] && cp "$f" $dst/; done
cd /repo
if [ -n "$(git status --porcelain)" ]; then echo "/repo not clean"; exit 2; fi
if ! git apply --check $dst/patch.diff; then echo "patch does not apply"; exit 2; fi
git apply $dst/patch.diff
export GOFLAGS=-mod=mod GOPROXY=off GOSUMDB=off GOTOOLCHAIN=local
go build ./... 2>&1 | tail -3
checks=${CHECKS:-$id}
echo "{" > $dst/result.json
first=1
for c in $checks; do
  out=$(cd /verif && ./bin/govc -prop $c -no-evidence 2>&1); rc=$?
  v=$(echo "$out" | grep -c '^VIOLATION')
  obs=$(echo "$out" | grep 'failed obligation:' | sed 's/.*failed obligation: //' | cut -d' ' -f1 | head -5 | tr '\n' ';')
  echo "$c rc=$rc violations=$v $obs"
  [ $first = 1 ] || echo "," >> $dst/result.json
  first=0
  printf ' "%s": {"exit": %d, "violations": %d, "failed_obligations": "%s"}' "$c" $rc $v "$(echo $obs | sed 's/"/\\"/g')" >> $dst/result.json
done
echo "" >> $dst/result.json; echo "}" >> $dst/result.json
git checkout -- .
git status --porcelain | head -3
