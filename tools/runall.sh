#!/bin/bash
# run the quick check of every claimed property (sequentially) and print one summary line each
cd "$(dirname "$0")/.."
ids=${@:-$(python3 -c "import json;print(' '.join(c['property'] if 'property' in c else c['id'] for c in json.load(open('MANIFEST.json'))['checks']))" 2>/dev/null)}
for id in $ids; do
  s=$(date +%s)
  out=$(./check $id quick 2>&1); rc=$?
  echo "$id rc=$rc $(($(date +%s)-s))s $(echo "$out" | grep -E '^property=' | tail -1)"
  echo "$out" | grep -E '^VIOLATION|^KNOWN-FINDING' | cut -c1-220
done
