#!/usr/bin/env python3
"""./check <id> thorough

1. Decide every obligation of the property on /repo's working tree with the long solver budget (60 s per query,
   three back ends raced, seed retries) - this run writes evidence/<id>.json and its exit status is the verdict.
2. Self-test of the checker on scratch copies of the working tree (made under $TMPDIR, removed afterwards):
   every patch in selftest/<id>/ (hand-written and seeded property-breaking changes, plus harmless refactorings)
   is applied to a scratch copy and the property is decided there. A breaking change must be reported as a
   VIOLATION, a harmless one must pass. Patches that no longer apply to the working tree are skipped (reported).
   A self-test mismatch does not say anything about /repo: it is reported as SELFTEST-MISMATCH on stderr and in the
   evidence file, and makes the command exit 2 (checker problem), never 1.
"""
import glob, json, os, shutil, subprocess, sys, tempfile, time

V = os.path.dirname(os.path.dirname(os.path.abspath(__file__)))
REPO = os.environ.get('VERIF_REPO', '/repo')


def sh(cmd, **kw):
    return subprocess.run(cmd, capture_output=True, text=True, **kw)


def main():
    prop = sys.argv[1]
    govc = os.path.join(V, 'bin', 'govc')
    t0 = time.time()
    p = subprocess.run([govc, '-prop', prop, '-tier', 'thorough'], cwd=V)
    verdict = p.returncode
    patches = sorted(glob.glob(os.path.join(V, 'selftest', prop, '*.diff')))
    results = []
    mismatch = 0
    if patches and verdict in (0, 1):
        def one(pf):
            name = os.path.basename(pf)[:-5]
            expect = 'pass' if name.startswith('ok_') else 'fail'
            d = tempfile.mkdtemp(prefix='verif_scratch_')
            try:
                scratch = os.path.join(d, 'repo')
                r = sh(['rsync', '-a', '--exclude', '.git', REPO + '/', scratch + '/'])
                if r.returncode != 0:
                    return {'patch': name, 'expect': expect, 'result': 'skipped', 'why': 'rsync failed'}
                r = sh(['patch', '-p1', '--no-backup-if-mismatch', '-s', '-f', '-i', pf], cwd=scratch)
                if r.returncode != 0:
                    return {'patch': name, 'expect': expect, 'result': 'skipped', 'why': 'patch does not apply to the current working tree'}
                t1 = time.time()
                # (each run keeps its solver scripts in its own directory: the runs are concurrent)
                r = sh([govc, '-repo', scratch, '-prop', prop, '-no-evidence', '-work', os.path.join(d, 'work')], cwd=V)
                viol = [l for l in r.stdout.splitlines() if l.startswith('VIOLATION')]
                got = 'fail' if r.returncode == 1 and viol else ('pass' if r.returncode == 0 else 'error')
                ok = got == expect
                obs = []
                for l in r.stdout.splitlines():
                    if l.strip().startswith('failed obligation:'):
                        obs.append(l.strip()[len('failed obligation:'):].strip().split('  ')[0])
                return {'patch': name, 'expect': expect, 'result': got, 'ok': ok, 'seconds': round(time.time() - t1, 1), 'failed_obligations': obs[:6]}
            finally:
                shutil.rmtree(d, ignore_errors=True)
        from concurrent.futures import ThreadPoolExecutor
        with ThreadPoolExecutor(max_workers=int(os.environ.get('VERIF_SELFTEST_JOBS', '4'))) as ex:
            results = list(ex.map(one, patches))
        for r in results:
            if r.get('ok') is False:
                mismatch += 1
                sys.stderr.write(f"SELFTEST-MISMATCH property={prop} patch={r['patch']} expected={r['expect']} got={r['result']}\n")
    # merge into the evidence file
    ev = os.path.join(V, 'evidence', prop + '.json')
    try:
        e = json.load(open(ev))
        e.setdefault('coverage', {})['selftest'] = {
            'what': 'property-breaking and harmless patches applied to scratch copies of the working tree; the check must flag the former and pass the latter',
            'patches': results, 'mismatches': mismatch}
        e['coverage']['thorough_wall_seconds'] = round(time.time() - t0, 1)
        json.dump(e, open(ev, 'w'), indent=1)
    except Exception as ex:
        sys.stderr.write(f'could not merge self-test results into {ev}: {ex}\n')
    nf = sum(1 for r in results if r['expect'] == 'fail' and r.get('ok'))
    np_ = sum(1 for r in results if r['expect'] == 'pass' and r.get('ok'))
    sk = sum(1 for r in results if r['result'] == 'skipped')
    print(f'selftest property={prop} breaking-changes-flagged={nf} harmless-changes-passed={np_} skipped={sk} mismatches={mismatch}')
    if verdict == 0 and mismatch:
        return 2
    return verdict


if __name__ == '__main__':
    sys.exit(main())
