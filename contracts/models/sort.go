// overlay: gemmill/modules/go-common/zz_verif_models.go

// Go-written models of standard-library functions that take function values. The verifier never sees the
// library body; it executes these models instead (inlined at the call site, closures included). They are part
// of the trusted base and are listed as such in the evidence. The file is injected into the package as a
// go/packages overlay: nothing is written to the repository and the build never sees it.

package common

// intrinsics: the verifier intercepts calls to these two by name; the bodies are never executed
func verifAssume(b bool)  {}
func verifHavocInt() int { return 0 }

// sort.Search(n, f): binary search. Whatever f is, the index r it returns satisfies 0 <= r <= n,
// f(r) if r < n, and !f(r-1) if r > 0 (the loop invariant of the library implementation); f is only ever
// called with indices in [0, n). Nothing else is assumed (in particular not that f is monotone).
func verifModelSortSearch(n int, f func(int) bool) int {
	r := verifHavocInt()
	verifAssume(0 <= r && r <= n)
	if r < n {
		verifAssume(f(r))
	}
	if r > 0 {
		verifAssume(!f(r - 1))
	}
	return r
}
