#!/bin/sh
# Offline build of the VC generator (govc). Uses only the Go module cache already in the sandbox.
set -e
cd "$(dirname "$0")"
export GOFLAGS=-mod=mod GOPROXY=off GOSUMDB=off GOTOOLCHAIN=local
mkdir -p bin evidence work replays
(cd engine && go build -o ../bin/govc .)
echo "govc built"
