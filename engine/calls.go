package main

import (
	"fmt"
	"go/ast"
	"go/token"
	"go/types"
	"os"
	"strings"

	"golang.org/x/tools/go/ssa"
)

// Loc is a set of heap locations: entries (r, i) of heap array Heap for which Cond holds.
type Loc struct {
	Heap    string
	Base    string // if non-empty: r == Base
	Idx     string // if non-empty (element heaps): i == Idx
	BaseFn  func(r string) string // general condition on r (used for eref-based sets)
	Cell    int    // >0: a local cell
	IsCell  bool
	Ghost   string
	Global  string
	MapAll  bool
	Except  map[string]bool // with Heap == "*": heap arrays NOT covered
}

func (e *Engine) isFirstParty(fn *ssa.Function) bool {
	if fn.Pkg != nil {
		return strings.HasPrefix(fn.Pkg.Pkg.Path(), modPrefix)
	}
	if fn.Parent() != nil {
		return e.isFirstParty(fn.Parent())
	}
	// method wrappers / synthetic
	if fn.Object() != nil && fn.Object().Pkg() != nil {
		return strings.HasPrefix(fn.Object().Pkg().Path(), modPrefix)
	}
	return false
}

func (e *Engine) envFor(st *State, fr *Frame, old *Snapshot) *Env {
	var pkg *types.Package
	if fr.fn != nil {
		f := fr.fn
		for f.Parent() != nil {
			f = f.Parent()
		}
		if f.Pkg != nil {
			pkg = f.Pkg.Pkg
		}
	}
	if old == nil {
		old = st.entry
	}
	env := &Env{e: e, st: st, old: old, vars: map[string]Val{}, frame: fr, pkg: pkg}
	if fr.fc != nil {
		e.bindLets(env, fr.fc)
	}
	return env
}

// bindLets registers the `let` abbreviations of a contract: they are macros, expanded where used (so that
// old(x) of a let evaluates the let's body in the pre-state).
func (e *Engine) bindLets(env *Env, fc *FuncContract) {
	if env.lets == nil {
		env.lets = map[string]*Clause{}
	}
	for i := range fc.Lets {
		env.lets[fc.Lets[i].Name] = &fc.Lets[i].C
	}
}

// ---------------------------------------------------------------- block entry / loops

func (e *Engine) enterBlock(st *State) ([]*State, bool) {
	fr := st.top()
	depth := len(st.frames)
	if st.dry != nil && depth == st.dry.frameDepth && fr.fn == st.dry.header.Parent() {
		if fr.blk == st.dry.header {
			if st.dry.loopBlocks == nil { // first step of the dry run
				st.dry.loopBlocks = e.loopBlocks[fr.blk]
			} else {
				st.dead = true
				return nil, true
			}
		} else if !st.dry.loopBlocks[fr.blk] {
			st.dead = true
			return nil, true
		}
	}
	e.analyzeLoops(fr.fn)
	k, isHeader := e.loopIdx[fr.fn][fr.blk]
	if !isHeader {
		return nil, false
	}
	if st.dry != nil && st.dry.header == fr.blk && depth == st.dry.frameDepth {
		return nil, false // the loop being dry-run: execute body once
	}
	var ls *LoopSpec
	fc := fr.fc
	if fc != nil {
		ls = fc.Loops[k]
	}
	env := e.envFor(st, fr, nil)
	env.header = fr.blk
	env.preferCells = true
	pos := nearestPos(fr.blk.Instrs[0])
	if fr.inLoop[fr.blk] {
		// back edge: invariant preserved
		if ls != nil {
			for j, c := range ls.Invariants {
				e.oblige(st, fmt.Sprintf("loop%d:preserve#%d", k, j), pos, tagOr(c), e.evalBool(env, c))
			}
		}
		e.frameObligations(st, fr, fmt.Sprintf("loop%d:frame", k), pos)
		// vacuity canary for the loop body: its assumptions (invariants, callee postconditions) must be consistent
		e.oblige(st, "canary", pos, fmt.Sprintf("loop%d:body", k), "false")
		st.dead = true
		return nil, true
	}
	// first arrival
	if ls != nil {
		for j, c := range ls.Invariants {
			e.oblige(st, fmt.Sprintf("loop%d:entry#%d", k, j), pos, tagOr(c), e.evalBool(env, c))
		}
	} else if st.dry == nil {
		st.note(fmt.Sprintf("loop %d of %s has no invariant (treated as `true`)", k, shortFn(fr.fn)))
	}
	// dry run to find what the loop modifies
	dry := st.clone()
	dry.dry = &DryInfo{header: fr.blk, frameDepth: depth, mod: newModSet()}
	dry.items = nil
	e.runDry(dry)
	mod := dry.dry.mod
	// phase 2: from a state with everything the loop may modify havocked, find the stores whose
	// base reference is loop-invariant (then only those objects are havocked, not the whole heap array)
	if !mod.all {
		dry2 := st.clone()
		dry2.items = nil
		coarse := newModSet()
		coarse.merge(mod)
		for h := range coarse.heaps {
			coarse.whole[h] = true
		}
		mark := e.d.nfresh // constants introduced by the havoc below depend on the iteration: a base mentioning one is not loop-invariant
		e.havocMod(dry2, coarse)
		dry2.dry = &DryInfo{header: fr.blk, frameDepth: depth, mod: newModSet()}
		e.runDry(dry2)
		mod2 := dry2.dry.mod
		mod.merge(mod2)
		mod.bases = map[string]map[string]bool{}
		for h := range mod.heaps {
			if mod2.whole[h] || mod.whole[h] && !mod2.heaps[h] {
				mod.whole[h] = true
				continue
			}
			delete(mod.whole, h)
			for b := range mod2.bases[h] {
				if hasFreshAfter(b, mark) {
					mod.whole[h] = true
					break
				}
			}
			if !mod.whole[h] {
				mod.bases[h] = mod2.bases[h]
			}
		}
	} else {
		for h := range mod.heaps {
			mod.whole[h] = true
		}
	}
	if st.dry != nil {
		st.dry.mod.merge(mod)
		for h := range mod.whole {
			st.dry.mod.whole[h] = true
		}
		for h, bs := range mod.bases {
			if st.dry.mod.bases[h] == nil {
				st.dry.mod.bases[h] = map[string]bool{}
			}
			for b := range bs {
				st.dry.mod.bases[h][b] = true
			}
		}
	}
	e.havocMod(st, mod)
	fr.inLoop[fr.blk] = true
	// assume invariants (and the frame so far)
	env = e.envFor(st, fr, nil)
	env.header = fr.blk
	env.preferCells = true
	if ls != nil {
		for _, c := range ls.Invariants {
			st.assume(e.evalBool(env, c))
		}
	}
	e.assumeFrame(st, fr)
	return nil, false
}

// hasFreshAfter reports whether term t mentions a fresh constant created after counter mark.
func hasFreshAfter(t string, mark int) bool {
	for i := 0; i < len(t); i++ {
		if t[i] == '!' {
			j := i + 1
			n := 0
			for j < len(t) && t[j] >= '0' && t[j] <= '9' {
				n = n*10 + int(t[j]-'0')
				j++
			}
			if j > i+1 && n > mark {
				return true
			}
		}
	}
	return false
}

func mentionsFresh(fc *FuncContract) bool {
	for _, c := range fc.Ensures {
		if strings.Contains(c.Text, "fresh(") {
			return true
		}
	}
	for _, c := range fc.TrustedEnsures {
		if strings.Contains(c.Text, "fresh(") {
			return true
		}
	}
	return false
}

// atcallMatches: an atcall clause names its callee either by bare name ("Commit": every callee of that name) or
// qualified ("(*StateDB).Commit", "state.New": the callee key must end with it).
func atcallMatches(spec, name, key string) bool {
	if strings.ContainsAny(spec, ".(") {
		return strings.HasSuffix(key, spec)
	}
	return spec == name
}

func tagOr(c Clause) string {
	if c.Tag != "" {
		return c.Tag
	}
	return c.Text
}

func (m *ModSet) merge(o *ModSet) {
	for k := range o.heaps {
		m.heaps[k] = true
	}
	for k := range o.cells {
		m.cells[k] = true
	}
	for k := range o.ghosts {
		m.ghosts[k] = true
	}
	for k := range o.globals {
		m.globals[k] = true
	}
	for k := range o.calls {
		m.calls[k] = true
	}
	m.all = m.all || o.all
	m.bytes = m.bytes || o.bytes
}

func (e *Engine) havocMod(st *State, mod *ModSet) {
	e.havocAlive(st) // objects allocated in the loop: the allocation clock may have advanced
	if mod.all {
		e.havocAllHeap(st)
	}
	for _, h := range sortedKeys(mod.heaps) {
		if bs, ok := mod.bases[h]; ok && !mod.whole[h] && len(bs) > 0 {
			inner := innerSort(e.heapSort(h))
			for _, b := range sortedKeys(bs) {
				e.heapStore(st, h, b, e.freshConst(st, "lh", inner))
			}
			continue
		}
		e.heapHavoc(st, h)
	}
	for id := range mod.cells {
		if v, ok := st.cells[id]; ok && v.K == KTerm {
			nv := e.freshVal(st, "lc", v.Typ)
			st.cells[id] = nv
		}
	}
	for g := range mod.ghosts {
		if v, ok := st.ghost[g]; ok {
			n := e.freshConst(st, "gh_"+g, v.S)
			st.ghost[g] = term(n, v.S, v.Typ)
		} else if gv, ok := e.cs.Ghosts[g]; ok {
			s, typ := e.specSort(gv.Sort, nil)
			n := e.freshConst(st, "gh_"+g, s)
			st.ghost[g] = term(n, s, typ)
		}
	}
	for g := range mod.globals {
		if v, ok := st.globals[g]; ok && v.K == KTerm {
			st.globals[g] = e.freshVal(st, "gl", v.Typ)
		}
	}
	for c := range mod.calls {
		n := e.freshConst(st, "calls_"+c, SInt)
		if old, ok := st.calls[c]; ok {
			st.assume(fmt.Sprintf("(>= %s %s)", n, old))
		} else {
			st.assume(fmt.Sprintf("(>= %s 0)", n))
		}
		st.calls[c] = n
	}
	if mod.bytes {
		e.havocBytes(st)
	}
}

func (e *Engine) havocAlive(st *State) {
	na := e.d.fresh("now")
	st.declare(na, SInt)
	st.assume(fmt.Sprintf("(>= %s %s)", na, st.alive))
	st.alive = na
	st.typed = map[string]bool{}
}

func (e *Engine) havocAllHeapExcept(st *State, except map[string]bool) {
	if os.Getenv("VERIF_DEBUG_HAVOC") != "" {
		fmt.Fprintf(os.Stderr, "havocAllHeapExcept %v epoch=%d prevExcept=%v\n", sortedKeys(except), st.havocEpoch, sortedKeys(st.havocExcept))
	}
	e.havocAlive(st)
	if st.havocEpoch == 0 {
		st.havocExcept = copyMap(except)
	} else {
		for k := range st.havocExcept {
			if !except[k] {
				delete(st.havocExcept, k)
			}
		}
	}
	st.havocEpoch++
	names := map[string]bool{}
	for n := range st.heap {
		names[n] = true
	}
	for k := range e.d.seen {
		if strings.HasPrefix(k, "c:H_") || strings.HasPrefix(k, "c:P_") || strings.HasPrefix(k, "c:E_") || strings.HasPrefix(k, "c:M_") {
			names[strings.TrimPrefix(k, "c:")] = true
		}
	}
	for _, n := range sortedKeys(names) {
		if !except[n] {
			e.heapHavoc(st, n)
		}
	}
	for g, v := range st.globals {
		if v.K == KTerm {
			st.globals[g] = e.freshVal(st, "gl", v.Typ)
		}
	}
}

func (e *Engine) havocAllHeap(st *State) {
	e.havocAlive(st)
	st.havocExcept = map[string]bool{}
	st.havocEpoch++
	names := map[string]bool{}
	for n := range st.heap {
		names[n] = true
	}
	for k := range e.d.seen {
		if strings.HasPrefix(k, "c:H_") || strings.HasPrefix(k, "c:P_") || strings.HasPrefix(k, "c:E_") || strings.HasPrefix(k, "c:M_") {
			names[strings.TrimPrefix(k, "c:")] = true
		}
	}
	for _, n := range sortedKeys(names) {
		e.heapHavoc(st, n)
	}
	for g, v := range st.globals {
		if v.K == KTerm {
			st.globals[g] = e.freshVal(st, "gl", v.Typ)
		}
	}
	if st.dry != nil {
		st.dry.mod.all = true
	}
	if st.havocAll == "" {
		st.havocAll = "an uncontracted call or `assigns everything`"
	}
}

// ---------------------------------------------------------------- calls

func calleeName(call *ssa.CallCommon, fnv Val) string {
	if call.IsInvoke() {
		return call.Method.Name()
	}
	if fnv.K == KFunc || fnv.K == KClosure {
		return fnv.Fn.Name()
	}
	// function value loaded from a field or variable
	switch v := call.Value.(type) {
	case *ssa.UnOp:
		switch a := v.X.(type) {
		case *ssa.FieldAddr:
			st := a.X.Type().Underlying().(*types.Pointer).Elem().Underlying().(*types.Struct)
			return st.Field(a.Field).Name()
		case *ssa.Alloc:
			return a.Comment
		case *ssa.FreeVar:
			return a.Name()
		case *ssa.Global:
			return a.Name()
		}
	case *ssa.Parameter:
		return v.Name()
	case *ssa.FreeVar:
		return v.Name()
	}
	return "funcvalue"
}

func (e *Engine) doCall(st *State, call *ssa.CallCommon, fnv Val, args []Val, dest ssa.Value, instr ssa.Instruction, isDefer bool) []*State {
	if b, ok := call.Value.(*ssa.Builtin); ok && !call.IsInvoke() {
		r := e.doBuiltin(st, b, call, args, instr)
		if dest != nil {
			e.setReg(st, dest, r)
		}
		return nil
	}
	name := calleeName(call, fnv)
	var resType types.Type = call.Signature().Results()
	var key string
	var callee *ssa.Function
	var params []string
	var fullArgs []Val
	sig := call.Signature()
	if call.IsInvoke() {
		key = strings.ReplaceAll(call.Method.FullName(), modPrefix, "")
		params = append(params, "recv")
		fullArgs = append(fullArgs, fnv)
		for i := 0; i < sig.Params().Len(); i++ {
			n := sig.Params().At(i).Name()
			if n == "" || n == "_" {
				n = fmt.Sprintf("arg%d", i)
			}
			params = append(params, n)
		}
		fullArgs = append(fullArgs, args...)
	} else {
		switch fnv.K {
		case KFunc, KClosure:
			callee = fnv.Fn
			key = fnKey(callee)
			for _, p := range callee.Params {
				params = append(params, p.Name())
			}
			fullArgs = args
		default:
			key = "funcval." + name
			for i := 0; i < sig.Params().Len(); i++ {
				n := sig.Params().At(i).Name()
				if n == "" || n == "_" {
					n = fmt.Sprintf("arg%d", i)
				}
				params = append(params, n)
			}
			fullArgs = args
		}
	}
	if len(params) != len(fullArgs) {
		// synthetic wrappers etc.
		params = nil
		for i := range fullArgs {
			params = append(params, fmt.Sprintf("arg%d", i))
		}
	}
	fr := st.top()
	root := st.frames[0]
	// verification intrinsics used by the Go-written models of external functions
	if callee != nil && strings.HasPrefix(callee.Name(), "verif") {
		switch callee.Name() {
		case "verifAssume":
			st.assume(args[0].T)
			return nil
		case "verifHavocInt":
			r := e.freshVal(st, "r_havoc", types.Typ[types.Int])
			if dest != nil {
				e.setReg(st, dest, r)
			}
			return nil
		}
	}
	isModel := false
	if mk, ok := e.cs.Models[key]; ok {
		if mf := e.fnByKey[mk]; mf != nil && mf.Blocks != nil {
			st.note("external function " + key + " replaced by its Go-written model " + mk + " (trusted)")
			callee, key, isModel = mf, mk, true
			fnv = Val{K: KFunc, Fn: mf}
		} else {
			panic(contractErr{"model function " + mk + " for " + key + " not found"})
		}
	}
	fc := e.cs.Funcs[key]
	if tfc := st.top().fc; tfc != nil && tfc.OrderOnly && fc != nil && !fc.Pure && !fc.NoReturn {
		st.note("order-only examination: contract of " + key + " not used (call treated as unknown)")
		fc = nil
	}

	// call-site assertions of the function under verification
	pre := st.snapshot()
	if root.fc != nil {
		for _, ac := range root.fc.AtCalls {
			if ac.Kind == "assert" && atcallMatches(ac.Callee, name, key) {
				env := e.envFor(st, root, nil)
				env.preferCells = true
				for i, p := range params {
					env.vars["arg_"+p] = fullArgs[i]
					if _, clash := env.vars[p]; !clash {
						if _, isParam := root.params[p]; !isParam {
							env.vars[p] = fullArgs[i]
						}
					}
				}
				for i := range args {
					env.vars[fmt.Sprintf("arg%d", i)] = args[i]
				}
				e.oblige(st, "atcall("+name+")", instr.Pos(), tagOr(ac.C), e.evalBool(env, ac.C))
			}
		}
	}
	// count the call
	cur, ok := st.calls[name]
	if !ok {
		cur = "0"
	}
	st.calls[name] = simplifyAdd1(cur)
	if st.dry != nil {
		st.dry.mod.calls[name] = true
	}

	var result Val
	haveResult := false
	switch {
	case fc != nil && !fc.Inline:
		fc.Used = true
		result = e.applyContract(st, fc, callee, key, name, params, fullArgs, resType, instr)
		haveResult = true
		if fc.NoReturn {
			e.abortPoint(st, instr, "panic")
			st.dead = true
			return nil
		}
	case callee != nil && (fnv.K == KClosure || isModel || (fc != nil && fc.Inline)) && callee.Blocks != nil && len(st.frames) < 12:
		// inline
		nf := &Frame{fn: callee, regs: map[ssa.Value]Val{}, blk: callee.Blocks[0], retDest: dest, isDefer: isDefer,
			inLoop: map[*ssa.BasicBlock]bool{}, free: map[*ssa.FreeVar]Val{}, params: map[string]Val{}, cellByName: map[string]int{}}
		for i, p := range callee.Params {
			nf.regs[p] = args[i]
			nf.params[p.Name()] = args[i]
		}
		for i, fv := range callee.FreeVars {
			if i < len(fnv.Bind) {
				nf.free[fv] = fnv.Bind[i]
			}
		}
		if cfc := e.cs.Funcs[key]; cfc != nil {
			nf.fc = cfc
			cfc.Used = true
		} else {
			// closures inherit the safety mode of the enclosing function
			nf.fc = &FuncContract{Key: key, NoSafety: fr.fc != nil && fr.fc.NoSafety, Loops: loopsFor(e, key)}
		}
		st.frames = append(st.frames, nf)
		return nil
	default:
		result = e.unknownCall(st, callee, key, name, fullArgs, resType, call)
		haveResult = true
	}
	if haveResult && len(st.stackLocs) > 0 && len(st.frames) == 1 {
		e.restoreStackLocs(st, pre.heap)
	}
	if haveResult {
		// ghost updates requested by the function under verification
		if root.fc != nil {
			for _, ac := range root.fc.AtCalls {
				if ac.Kind == "set" && atcallMatches(ac.Callee, name, key) {
					env := e.envFor(st, root, pre)
					env.preferCells = true
					for i, p := range params {
						env.vars["arg_"+p] = fullArgs[i]
					}
					for i := range args {
						env.vars[fmt.Sprintf("arg%d", i)] = args[i]
					}
					e.bindResults(env, result)
					env.clause = &ac.C
					v := env.materialize(env.eval(ac.C.Expr))
					st.ghost[ac.Ghost] = v
					if st.dry != nil {
						st.dry.mod.ghosts[ac.Ghost] = true
					}
				}
			}
		}
		if dest != nil {
			e.setReg(st, dest, result)
		}
	}
	return nil
}

func loopsFor(e *Engine, key string) map[int]*LoopSpec {
	if fc := e.cs.Funcs[key]; fc != nil {
		return fc.Loops
	}
	return map[int]*LoopSpec{}
}

func simplifyAdd1(t string) string {
	var n int
	if _, err := fmt.Sscanf(t, "%d", &n); err == nil && fmt.Sprintf("%d", n) == t {
		return fmt.Sprintf("%d", n+1)
	}
	return fmt.Sprintf("(+ %s 1)", t)
}

func (e *Engine) bindResults(env *Env, result Val) {
	if result.K == KTuple {
		for i, r := range result.Elems {
			env.vars[fmt.Sprintf("result%d", i)] = r
		}
		if len(result.Elems) > 0 {
			env.vars["result"] = result.Elems[0]
		}
	} else if result.K != KUnit {
		env.vars["result"] = result
		env.vars["result0"] = result
	}
}

func (e *Engine) freshResult(st *State, name string, resType types.Type) Val {
	tup, ok := resType.(*types.Tuple)
	if !ok {
		return e.freshVal(st, "r_"+name, resType)
	}
	switch tup.Len() {
	case 0:
		return Val{K: KUnit}
	case 1:
		return e.freshVal(st, "r_"+name, tup.At(0).Type())
	}
	return e.freshVal(st, "r_"+name, tup)
}

// applyContract: modular call. Asserts requires, havocs assigns, assumes ensures.
func (e *Engine) applyContract(st *State, fc *FuncContract, callee *ssa.Function, key, name string, params []string, args []Val, resType types.Type, instr ssa.Instruction) Val {
	var pkg *types.Package
	if callee != nil {
		f := callee
		for f.Parent() != nil {
			f = f.Parent()
		}
		if f.Pkg != nil {
			pkg = f.Pkg.Pkg
		}
	}
	if pkg == nil && fc.PkgPath != "" {
		if sp, ok := e.pkgByPath[fc.PkgPath]; ok {
			pkg = sp.Pkg
		}
	}
	if pkg == nil {
		// extern spec: resolve names against the caller's package
		f := st.frames[0].fn
		if f.Pkg != nil {
			pkg = f.Pkg.Pkg
		}
	}
	pre := st.snapshot()
	mkEnv := func(old *Snapshot) *Env {
		env := &Env{e: e, st: st, old: old, vars: map[string]Val{}, pkg: pkg}
		shift := 0
		if len(params) > 0 && params[0] == "recv" {
			shift = 1 // positional names arg0, arg1, ... number the declared parameters, not the interface receiver
		}
		for i := range params {
			if i >= shift {
				env.vars[fmt.Sprintf("arg%d", i-shift)] = args[i]
			}
		}
		for i, p := range params {
			env.vars[p] = args[i]
		}
		e.bindLets(env, fc)
		return env
	}
	env := mkEnv(pre)
	for i, c := range fc.Requires {
		d := c.Tag
		if d == "" {
			d = c.Text
		}
		e.oblige(st, fmt.Sprintf("requires(%s)#%d", name, i), instr.Pos(), d, e.evalBool(env, c))
	}
	// the callee may abort (panic) under its `aborts when` conditions: that must be allowed by the
	// function under verification; afterwards the call has returned normally, so the condition is false
	if len(fc.Aborts) > 0 && !fc.NoReturn {
		var alts []string
		for _, c := range fc.Aborts {
			alts = append(alts, e.evalBool(env, c))
		}
		cond := or(alts...)
		if st.dry == nil && !(st.top().fc != nil && st.top().fc.NoSafety) {
			root := st.frames[0]
			allowed := "false"
			if root.fc != nil && len(root.fc.Aborts) > 0 {
				var ra []string
				for _, c := range root.fc.Aborts {
					renv := e.envFor(st, root, nil)
					ra = append(ra, e.evalBool(renv, c))
				}
				allowed = or(ra...)
			}
			e.oblige(st, "safety:panic", instr.Pos(), "callee "+name+" may abort", implies(cond, allowed))
		}
		st.assume(not(cond))
	}
	// frame (the callee may have allocated: advance the allocation clock first so that havocked
	// locations are bounded by the post-call time)
	var locs []Loc
	if fc.HasAssigns && !fc.AssignsEverything {
		for _, a := range fc.Assigns {
			a := a
			env.clause = &a
			locs = append(locs, e.evalLoc(env, a.Expr)...)
		}
	}
	if !(fc.NoAlloc || (fc.Pure && !mentionsFresh(fc))) {
		e.havocAlive(st)
	}
	if !fc.HasAssigns || fc.AssignsEverything {
		if !fc.Pure {
			e.havocAllHeap(st)
			if !fc.HasAssigns {
				st.note("contract of " + key + " has no assigns clause: whole heap havocked at call sites")
			}
		}
	} else {
		for _, loc := range locs {
			e.havocLoc(st, loc)
		}
	}
	res := e.freshResult(st, sanitize(name), resType)
	post := mkEnv(pre)
	e.bindResults(post, res)
	if callee != nil && callee.Signature.Results() != nil {
		rs := callee.Signature.Results()
		for i := 0; i < rs.Len(); i++ {
			if n := rs.At(i).Name(); n != "" && n != "_" {
				if res.K == KTuple {
					post.vars[n] = res.Elems[i]
				} else {
					post.vars[n] = res
				}
			}
		}
	}
	e.bindLets(post, fc)
	// call counters are local to the activation they are counted in: in a callee's postcondition they denote values the
	// caller knows nothing about (never the caller's own counters)
	post.calleeCalls = map[string]string{}
	for _, c := range fc.Ensures {
		if c.Local {
			continue
		}
		st.assume(e.evalBool(post, c))
	}
	for _, c := range fc.TrustedEnsures {
		st.assume(e.evalBool(post, c))
	}
	return res
}

// unknownCall: no contract. External callees touch only what their pointer arguments reach directly;
// first-party callees without a contract havoc the whole heap.
func (e *Engine) unknownCall(st *State, callee *ssa.Function, key, name string, args []Val, resType types.Type, call *ssa.CallCommon) Val {
	first := false
	if callee != nil {
		first = e.isFirstParty(callee)
	} else if call.IsInvoke() {
		if p := call.Method.Pkg(); p != nil {
			first = strings.HasPrefix(p.Path(), modPrefix)
		}
	} else {
		first = true // dynamic function value
	}
	pkgPath := ""
	if callee != nil {
		f := callee
		for f.Parent() != nil {
			f = f.Parent()
		}
		if f.Pkg != nil {
			pkgPath = shortPkg(f.Pkg.Pkg.Path())
		} else if f.Object() != nil && f.Object().Pkg() != nil {
			pkgPath = shortPkg(f.Object().Pkg().Path())
		}
	} else if call.IsInvoke() && call.Method.Pkg() != nil {
		pkgPath = shortPkg(call.Method.Pkg().Path())
	}
	for _, pre := range e.cs.PurePrefixes {
		if strings.HasPrefix(key, pre) {
			st.note("call assumed effect-free (pureprefix " + pre + ")")
			return e.freshResult(st, sanitize(name), resType)
		}
	}
	if e.cs.PurePkgs[pkgPath] {
		st.note("call into package assumed effect-free (purepkg): " + pkgPath)
		return e.freshResult(st, sanitize(name), resType)
	}
	e.havocAlive(st)
	// closures passed to an unknown callee may run: the cells they capture may change
	for _, a := range args {
		if a.K == KClosure {
			for _, b := range a.Bind {
				e.havocReachable(st, b)
			}
		}
	}
	if first {
		st.note("first-party call without contract: " + key + " (whole heap havocked)")
		e.havocAllHeap(st)
		e.havocBytesIfAnyBytesArg(st, args, name, true)
	} else {
		st.note("external call under the default rule (assigns only memory directly reachable from pointer arguments): " + key)
		for _, a := range args {
			e.havocReachable(st, a)
			if a.K == KClosure || a.K == KFunc {
				st.note("external call receives a function value: whole heap havocked (" + key + ")")
				e.havocAllHeap(st)
			}
		}
		e.havocBytesIfAnyBytesArg(st, args, name, false)
	}
	res := e.freshResult(st, sanitize(name), resType)
	return res
}

var byteWriterNames = []string{"Read", "ReadFull", "ReadAtLeast", "PutUint16", "PutUint32", "PutUint64", "PutUvarint", "PutVarint", "Seal", "Open", "Decode", "ReadAt"}

func (e *Engine) havocBytesIfAnyBytesArg(st *State, args []Val, name string, firstParty bool) {
	has := false
	for _, a := range args {
		if a.K == KTerm && a.S == SBytes && a.Typ != nil && !isString(a.Typ) {
			has = true
		}
	}
	if !has {
		return
	}
	if firstParty {
		e.bytesWritten(st, "uncontracted first-party callee "+name+" receives a []byte")
		return
	}
	for _, w := range byteWriterNames {
		if name == w {
			e.bytesWritten(st, "external writer "+name)
			return
		}
	}
}

func (e *Engine) havocReachable(st *State, a Val) {
	switch a.K {
	case KCell:
		if v, ok := st.cells[a.Cell]; ok && v.K == KTerm {
			st.cells[a.Cell] = e.freshVal(st, "hc", v.Typ)
			if st.dry != nil {
				st.dry.mod.cells[a.Cell] = true
			}
		}
	case KField:
		et := elemType(a.Typ)
		e.heapStore(st, a.Heap, a.Base, e.freshVal(st, "hf", et).T)
	case KElem:
		et := elemType(a.Typ)
		cur := st.heapGet(a.Heap)
		e.heapStore(st, a.Heap, a.Base, store(sel(cur, a.Base), a.Idx, e.freshVal(st, "he", et).T))
	case KArrPtr:
		et := elemType(a.Typ)
		e.heapStore(st, a.Heap, a.Base, e.freshConst(st, "ha", e.d.SortOf(et)))
	case KGlobal:
		t := a.G.Type().(*types.Pointer).Elem()
		if !isStruct(t) {
			st.globals[a.G.String()] = e.freshVal(st, "hg", t)
		}
	case KTerm:
		if a.Typ == nil {
			return
		}
		switch u := a.Typ.Underlying().(type) {
		case *types.Pointer:
			et := u.Elem()
			guard := a.T
			_ = guard
			if isStruct(et) {
				e.havocStructAt(st, a.T, et)
			} else if isArray(et) {
				e.heapStore(st, e.d.ElemHeapT(elemType(et)), a.T, e.freshConst(st, "ha", e.d.SortOf(et)))
			} else {
				s := e.d.SortOf(et)
				e.heapStore(st, e.d.BoxHeap(s), a.T, e.freshVal(st, "hb", et).T)
			}
		case *types.Slice:
			if a.S == SSlice && !isStruct(u.Elem()) {
				es := e.d.SortOf(u.Elem())
				h := e.d.ElemHeapT(u.Elem())
				e.heapStore(st, h, app("sarr", a.T), e.freshConst(st, "hs", Sort(fmt.Sprintf("(Array Int %s)", es))))
			}
		case *types.Map:
			mt := u
			dom, val, ln := e.d.MapHeaps(e.mapKeySort(mt), e.d.SortOf(mt.Elem()))
			for _, h := range []string{dom, val, ln} {
				srt := e.heapSort(h)
				inner := Sort(strings.TrimSuffix(strings.TrimPrefix(string(srt), "(Array Ref "), ")"))
				e.heapStore(st, h, a.T, e.freshConst(st, "hm", inner))
			}
		}
	}
}

// ---------------------------------------------------------------- assigns locations

func (e *Engine) evalLoc(env *Env, x ast.Expr) []Loc {
	switch x := x.(type) {
	case *ast.ParenExpr:
		return e.evalLoc(env, x.X)
	case *ast.Ident:
		if x.Name == "everything" {
			return []Loc{{Heap: "*"}}
		}
		if g, ok := e.cs.Ghosts[x.Name]; ok {
			return []Loc{{Ghost: g.Name}}
		}
		if env.pkg != nil {
			if obj, ok := env.pkg.Scope().Lookup(x.Name).(*types.Var); ok && obj != nil {
				sp := e.prog.Package(obj.Pkg())
				if g, ok := sp.Members[obj.Name()].(*ssa.Global); ok {
					return []Loc{{Global: g.String()}}
				}
			}
		}
		env.fail("assigns: %s is not a location", x.Name)
	case *ast.CallExpr:
		// reachable(v): the object a (possibly boxed) pointer argument points to
		if id, ok := x.Fun.(*ast.Ident); ok && id.Name == "allbut" {
			// every heap location except the fields of the listed struct types
			except := map[string]bool{}
			for _, a := range x.Args {
				t := e.resolveType(exprString(a), env.pkg)
				if t == nil {
					continue // type not loaded in this run: it has no heap arrays here
				}
				// []T: the elements of every slice/array of T; map[K]V: the content of every such map
				if sl, ok := t.Underlying().(*types.Slice); ok {
					if isStruct(sl.Elem()) {
						env.fail("allbut: slices of struct values are not supported (%s)", exprString(a))
					}
					except[e.d.ElemHeapT(sl.Elem())] = true
					continue
				}
				if mp, ok := t.Underlying().(*types.Map); ok {
					dom, val, _ := e.d.MapHeaps(e.d.SortOf(mp.Key()), e.d.SortOf(mp.Elem()))
					except[dom] = true
					except[val] = true
					continue
				}
				if !isStruct(t) {
					env.fail("allbut: %s is not a struct type", exprString(a))
				}
				// only the type's own (non-struct) fields: heaps of nested struct types are shared with other owners
				stt := t.Underlying().(*types.Struct)
				for i := 0; i < stt.NumFields(); i++ {
					if !isStruct(stt.Field(i).Type()) {
						h, _ := e.d.FieldHeap(t, i)
						except[h] = true
					}
				}
			}
			return []Loc{{Heap: "*", Except: except}}
		}
		if id, ok := x.Fun.(*ast.Ident); ok && id.Name == "alloftype" && len(x.Args) == 1 {
			t := e.resolveType(exprString(x.Args[0]), env.pkg)
			if t == nil || !isStruct(t) {
				env.fail("alloftype: cannot resolve struct type %s", exprString(x.Args[0]))
			}
			var locs []Loc
			for _, l := range e.allLeaves("?", t) {
				locs = append(locs, Loc{Heap: l.Heap, BaseFn: func(r string) string { return "true" }})
			}
			return locs
		}
		if id, ok := x.Fun.(*ast.Ident); ok && id.Name == "heap" && len(x.Args) == 1 {
			// heap(Type.field): that field of every object of the type
			se, ok := x.Args[0].(*ast.SelectorExpr)
			if !ok {
				env.fail("assigns heap(Type.field)")
			}
			t := e.resolveType(exprString(se.X), env.pkg)
			if t == nil || !isStruct(t) {
				env.fail("assigns heap: cannot resolve struct type %s", exprString(se.X))
			}
			stt := t.Underlying().(*types.Struct)
			for i := 0; i < stt.NumFields(); i++ {
				if stt.Field(i).Name() == se.Sel.Name && !isStruct(stt.Field(i).Type()) {
					h, _ := e.d.FieldHeap(t, i)
					return []Loc{{Heap: h, BaseFn: func(r string) string { return "true" }}}
				}
			}
			env.fail("assigns heap: no leaf field %s", se.Sel.Name)
		}
		if id, ok := x.Fun.(*ast.Ident); ok && id.Name == "reachable" && len(x.Args) == 1 {
			v := env.eval(x.Args[0])
			if v.Box != nil {
				v = *v.Box
			}
			switch v.K {
			case KCell:
				return []Loc{{IsCell: true, Cell: v.Cell}}
			case KField:
				return []Loc{{Heap: v.Heap, Base: v.Base}}
			case KTerm:
				if v.Typ != nil {
					if pt, ok := v.Typ.Underlying().(*types.Pointer); ok {
						if isStruct(pt.Elem()) {
							return e.allLeaves(v.T, pt.Elem())
						}
						if !isArray(pt.Elem()) {
							return []Loc{{Heap: e.d.BoxHeap(e.d.SortOf(pt.Elem())), Base: v.T}}
						}
					}
				}
			}
			return []Loc{{Heap: "*"}}
		}
		env.fail("assigns: unsupported location expression")
	case *ast.StarExpr:
		p := env.eval(x.X)
		switch p.K {
		case KCell:
			return []Loc{{IsCell: true, Cell: p.Cell}}
		case KField:
			return []Loc{{Heap: p.Heap, Base: p.Base}}
		case KElem:
			return []Loc{{Heap: p.Heap, Base: p.Base, Idx: p.Idx}}
		case KTerm:
			pt, ok := p.Typ.Underlying().(*types.Pointer)
			if !ok {
				env.fail("assigns *p: p is not a pointer")
			}
			if isStruct(pt.Elem()) {
				return e.allLeaves(p.T, pt.Elem())
			}
			if at, ok := pt.Elem().Underlying().(*types.Array); ok && !isStruct(at.Elem()) {
				// pointer to an array: the array's elements live in the element heap under the array's reference
				return []Loc{{Heap: e.d.ElemHeapT(at.Elem()), Base: p.T}}
			}
			return []Loc{{Heap: e.d.BoxHeap(e.d.SortOf(pt.Elem())), Base: p.T}}
		}
		env.fail("assigns *p: unsupported pointer kind")
	case *ast.SelectorExpr:
		base := env.eval(x.X)
		if x.Sel.Name == "all__" {
			if pm, ok := base.Typ.(ptrMarker); ok {
				return e.allLeaves(base.T, pm.Pointer.Elem())
			}
			pt, ok := base.Typ.Underlying().(*types.Pointer)
			if !ok || !isStruct(pt.Elem()) {
				env.fail("assigns x.*: x is not a pointer to struct")
			}
			return e.allLeaves(base.T, pt.Elem())
		}
		// field
		obj, path := lookupFieldAnyPkg(base.Typ, x.Sel.Name)
		if obj == nil {
			env.fail("assigns: no field %s", x.Sel.Name)
		}
		cur := base
		for _, idx := range path[:len(path)-1] {
			cur = env.fieldByIndex(cur, idx)
		}
		pt, ok := cur.Typ.Underlying().(*types.Pointer)
		if !ok {
			env.fail("assigns x.f: x is not a pointer")
		}
		stt := pt.Elem()
		fi := path[len(path)-1]
		ft := stt.Underlying().(*types.Struct).Field(fi).Type()
		if isStruct(ft) {
			return e.allLeaves(e.mkSub(env.st, stt, fi, cur.T), ft)
		}
		h, _ := e.d.FieldHeap(stt, fi)
		return []Loc{{Heap: h, Base: cur.T}}
	case *ast.IndexExpr:
		coll := env.materialize(env.eval(x.X))
		all := false
		if id, ok := x.Index.(*ast.Ident); ok && id.Name == "all__" {
			all = true
		}
		switch coll.S {
		case SSlice:
			et := elemType(coll.Typ)
			arr := app("sarr", coll.T)
			if isStruct(et) {
				// all leaf fields of (all/one) elements
				er := e.d.ERef(et)
				var locs []Loc
				var idxT string
				if !all {
					idxT = fmt.Sprintf("(sidx %s %s)", coll.T, env.eval(x.Index).T)
				}
				for _, l := range e.allLeaves("?", et) {
					l := l
					heap := l.Heap
					pathFn := l.BaseFn // maps element ref -> leaf owner ref
					locs = append(locs, Loc{Heap: heap, BaseFn: func(r string) string {
						// r is the owner ref of the leaf; it must be (a sub-ref of) an element of arr
						owner := r
						if pathFn != nil {
							owner = pathFn(r)
						}
						c := eq(app(er+"_a", owner), arr)
						c = and(c, eq(app(er, app(er+"_a", owner), app(er+"_i", owner)), owner))
						if idxT != "" {
							c = and(c, eq(app(er+"_i", owner), idxT))
						}
						return c
					}})
				}
				return locs
			}
			h := e.d.ElemHeapT(et)
			if all {
				return []Loc{{Heap: h, Base: arr}}
			}
			return []Loc{{Heap: h, Base: arr, Idx: fmt.Sprintf("(sidx %s %s)", coll.T, env.eval(x.Index).T)}}
		case SRef:
			if mt, ok := coll.Typ.Underlying().(*types.Map); ok {
				dom, val, ln := e.d.MapHeaps(e.mapKeySort(mt), e.d.SortOf(mt.Elem()))
				if all {
					return []Loc{{Heap: dom, Base: coll.T}, {Heap: val, Base: coll.T}, {Heap: ln, Base: coll.T}}
				}
				k := e.mapKey(mt, env.eval(x.Index))
				return []Loc{{Heap: dom, Base: coll.T, Idx: k}, {Heap: val, Base: coll.T, Idx: k}, {Heap: ln, Base: coll.T}}
			}
		}
		env.fail("assigns: cannot index sort %s", coll.S)
	}
	env.fail("assigns: unsupported location expression")
	return nil
}

// allLeaves lists the leaf-field locations of the struct of type t at ref r. With r == "?" the
// locations carry a BaseFn mapping a leaf owner ref back to the root struct ref (inverse sub-ref chain).
func (e *Engine) allLeaves(r string, t types.Type) []Loc {
	var out []Loc
	st := t.Underlying().(*types.Struct)
	for i := 0; i < st.NumFields(); i++ {
		ft := st.Field(i).Type()
		if isStruct(ft) {
			sub := e.d.SubRef(t, i)
			if r == "?" {
				for _, l := range e.allLeaves("?", ft) {
					inner := l.BaseFn
					out = append(out, Loc{Heap: l.Heap, BaseFn: func(o string) string {
						x := o
						if inner != nil {
							x = inner(o)
						}
						return app(sub+"_inv", x)
					}})
				}
			} else {
				out = append(out, e.allLeaves(app(sub, r), ft)...)
			}
			continue
		}
		h, _ := e.d.FieldHeap(t, i)
		if r == "?" {
			out = append(out, Loc{Heap: h})
		} else {
			out = append(out, Loc{Heap: h, Base: r})
		}
	}
	return out
}

func innerSort(s Sort) Sort {
	return Sort(strings.TrimSuffix(strings.TrimPrefix(string(s), "(Array Ref "), ")"))
}

func (e *Engine) havocLoc(st *State, l Loc) {
	switch {
	case l.IsCell:
		if v, ok := st.cells[l.Cell]; ok && v.K == KTerm {
			st.cells[l.Cell] = e.freshVal(st, "hc", v.Typ)
			if st.dry != nil {
				st.dry.mod.cells[l.Cell] = true
			}
		}
	case l.Ghost != "":
		g := e.cs.Ghosts[l.Ghost]
		s, typ := e.specSort(g.Sort, nil)
		st.ghost[g.Name] = term(e.freshConst(st, "gh_"+g.Name, s), s, typ)
		if st.dry != nil {
			st.dry.mod.ghosts[g.Name] = true
		}
	case l.Global != "":
		if v, ok := st.globals[l.Global]; ok && v.K == KTerm {
			st.globals[l.Global] = e.freshVal(st, "hg", v.Typ)
		} else {
			delete(st.globals, l.Global)
			st.note("assigns on global " + l.Global + ": fresh value on next load not modelled precisely")
		}
	case l.Heap == "*" && l.Except != nil:
		e.havocAllHeapExcept(st, l.Except)
	case l.Heap == "*":
		e.havocAllHeap(st)
	case l.BaseFn != nil:
		old := st.heapGet(l.Heap)
		nn := e.heapHavoc(st, l.Heap)
		st.assume(fmt.Sprintf("(forall ((r Ref)) (! (=> (not %s) (= (select %s r) (select %s r))) :pattern ((select %s r))))", l.BaseFn("r"), nn, old, nn))
	case l.Idx != "":
		srt := innerSort(e.heapSort(l.Heap))
		// element sort: (Array K V) -> V
		es := elemSortOfArray(srt)
		fv := e.freshConst(st, "hv", es)
		cur := st.heapGet(l.Heap)
		e.heapStore(st, l.Heap, l.Base, store(sel(cur, l.Base), l.Idx, fv))
	default:
		srt := innerSort(e.heapSort(l.Heap))
		fv := e.freshConst(st, "hv", srt)
		e.heapStore(st, l.Heap, l.Base, fv)
	}
}

// elemSortOfArray: "(Array K V)" -> V
func elemSortOfArray(s Sort) Sort {
	t := strings.TrimSuffix(strings.TrimPrefix(string(s), "(Array "), ")")
	// skip key sort (may be parenthesised)
	depth := 0
	for i := 0; i < len(t); i++ {
		switch t[i] {
		case '(':
			depth++
		case ')':
			depth--
		case ' ':
			if depth == 0 {
				return Sort(t[i+1:])
			}
		}
	}
	return Sort(t)
}

// ---------------------------------------------------------------- frame checking

// frameLocs evaluates the assigns clauses of fr's contract in the entry state.
func (e *Engine) frameLocs(st *State, fr *Frame) ([]Loc, bool) {
	fc := fr.fc
	if fc == nil || !fc.HasAssigns || fc.AssignsEverything || fc.FrameTrusted {
		return nil, false
	}
	env := e.envFor(st, fr, st.entry)
	env.inOld = true
	var locs []Loc
	for _, a := range fc.Assigns {
		env.clause = &a
		locs = append(locs, e.evalLoc(env, a.Expr)...)
	}
	return locs, true
}

func (e *Engine) frameCond(st *State, name string, locs []Loc, cur, entry string) string {
	srt := innerSort(e.heapSort(name))
	isNested := strings.HasPrefix(string(srt), "(Array ")
	var rConds []string
	var riConds []string
	for _, l := range locs {
		if l.Heap == "*" && l.Except != nil && !l.Except[name] {
			rConds = append(rConds, "true")
			continue
		}
		if l.Heap != name {
			continue
		}
		switch {
		case l.BaseFn != nil:
			rConds = append(rConds, l.BaseFn("fr_r"))
		case l.Idx != "":
			riConds = append(riConds, and(eq("fr_r", l.Base), eq("fr_i", l.Idx)))
		default:
			rConds = append(rConds, eq("fr_r", l.Base))
		}
	}
	aliveEntry := st.entry.alive
	for _, c := range rConds {
		if c == "true" {
			return "true"
		}
	}
	if len(riConds) > 0 && isNested {
		ks := keySortOfArray(srt)
		return fmt.Sprintf("(forall ((fr_r Ref) (fr_i %s)) (or (= (select (select %s fr_r) fr_i) (select (select %s fr_r) fr_i)) (>= (stamp fr_r) %s) %s))",
			ks, cur, entry, aliveEntry, or(append(rConds, riConds...)...))
	}
	return fmt.Sprintf("(forall ((fr_r Ref)) (or (= (select %s fr_r) (select %s fr_r)) (>= (stamp fr_r) %s) %s))",
		cur, entry, aliveEntry, or(rConds...))
}

func keySortOfArray(s Sort) Sort {
	t := strings.TrimSuffix(strings.TrimPrefix(string(s), "(Array "), ")")
	depth := 0
	for i := 0; i < len(t); i++ {
		switch t[i] {
		case '(':
			depth++
		case ')':
			depth--
		case ' ':
			if depth == 0 {
				return Sort(t[:i])
			}
		}
	}
	return Sort(t)
}

func (e *Engine) frameObligations(st *State, fr *Frame, class string, pos token.Pos) {
	if st.dry != nil || fr != st.frames[0] {
		return
	}
	locs, ok := e.frameLocs(st, fr)
	if !ok {
		return
	}
	if st.havocAll != "" {
		e.oblige(st, class, pos, "*", "false")
		return
	}
	for _, name := range sortedKeys(st.heap) {
		cur := st.heap[name]
		entry := name
		if t, ok := st.entry.heap[name]; ok {
			entry = t
		}
		if cur == entry {
			continue
		}
		e.oblige(st, class, pos, name, e.frameCond(st, name, locs, cur, entry))
	}
}

func (e *Engine) assumeFrame(st *State, fr *Frame) {
	if fr != st.frames[0] {
		return
	}
	locs, ok := e.frameLocs(st, fr)
	if !ok {
		return
	}
	for _, name := range sortedKeys(st.heap) {
		cur := st.heap[name]
		entry := name
		if t, ok := st.entry.heap[name]; ok {
			entry = t
		}
		if cur == entry {
			continue
		}
		st.assume(e.frameCond(st, name, locs, cur, entry))
	}
}

// ---------------------------------------------------------------- return

func (e *Engine) doReturn(st *State, in *ssa.Return) []*State {
	fr := st.top()
	var res Val
	switch len(in.Results) {
	case 0:
		res = Val{K: KUnit}
	case 1:
		res = e.val(st, in.Results[0])
	default:
		var vs []Val
		for _, r := range in.Results {
			vs = append(vs, e.val(st, r))
		}
		res = Val{K: KTuple, Elems: vs}
	}
	if len(st.frames) > 1 {
		// return from an inlined frame
		st.frames = st.frames[:len(st.frames)-1]
		if st.dry != nil && len(st.frames) < st.dry.frameDepth {
			st.dead = true
			return nil
		}
		if fr.retDest != nil {
			e.setReg(st, fr.retDest, res)
		}
		return nil
	}
	if st.dry != nil {
		st.dead = true
		return nil
	}
	// function under verification returns: check ensures and frame
	fc := fr.fc
	pos := in.Pos()
	if !pos.IsValid() {
		pos = nearestPos(in)
	}
	if fc != nil {
		env := e.envFor(st, fr, st.entry)
		e.bindResults(env, res)
		rs := fr.fn.Signature.Results()
		for i := 0; rs != nil && i < rs.Len(); i++ {
			if n := rs.At(i).Name(); n != "" && n != "_" {
				if res.K == KTuple {
					env.vars[n] = res.Elems[i]
				} else {
					env.vars[n] = res
				}
			}
		}
		e.bindLets(env, fc)
		for i, c := range fc.Ensures {
			d := c.Tag
			if d == "" {
				d = c.Text
			}
			e.oblige(st, fmt.Sprintf("ensures#%d", i), pos, d, e.evalBool(env, c))
		}
		e.frameObligations(st, fr, "frame", pos)
	}
	e.oblige(st, "canary", pos, "return", "false")
	st.dead = true
	return nil
}

// ---------------------------------------------------------------- builtins

func (e *Engine) doBuiltin(st *State, b *ssa.Builtin, call *ssa.CallCommon, args []Val, instr ssa.Instruction) Val {
	intT := types.Typ[types.Int]
	switch b.Name() {
	case "len":
		a := args[0]
		switch a.S {
		case SBytes:
			e.bytesFacts(st, a.T)
			return term(app("blen", a.T), SInt, intT)
		case SSlice:
			return term(app("slen", a.T), SInt, intT)
		case SRef:
			if _, ok := a.Typ.Underlying().(*types.Map); ok {
				_, _, ln := e.d.MapHeaps(SInt, SInt)
				v := term(fmt.Sprintf("(ite (= %s rnil) 0 %s)", a.T, sel(st.heapGet(ln), a.T)), SInt, intT)
				st.assume(fmt.Sprintf("(>= %s 0)", v.T))
				return v
			}
			if _, ok := a.Typ.Underlying().(*types.Chan); ok {
				v := e.freshVal(st, "chanlen", intT)
				st.assume(fmt.Sprintf("(>= %s 0)", v.T))
				return v
			}
			if pt, ok := a.Typ.Underlying().(*types.Pointer); ok {
				if at, ok := pt.Elem().Underlying().(*types.Array); ok {
					return term(fmt.Sprintf("%d", at.Len()), SInt, intT)
				}
			}
		}
		if at, ok := a.Typ.Underlying().(*types.Array); ok {
			return term(fmt.Sprintf("%d", at.Len()), SInt, intT)
		}
		if a.K == KArrPtr {
			at := elemType(a.Typ).Underlying().(*types.Array)
			return term(fmt.Sprintf("%d", at.Len()), SInt, intT)
		}
		panic(unsupported("len of " + string(a.S)))
	case "cap":
		a := args[0]
		switch a.S {
		case SBytes:
			e.needBcap()
			return term(app("bcap", a.T), SInt, intT)
		case SSlice:
			return term(app("scap", a.T), SInt, intT)
		}
		v := e.freshVal(st, "cap", intT)
		st.assume(fmt.Sprintf("(>= %s 0)", v.T))
		return v
	case "append":
		return e.doAppend(st, call, args, instr)
	case "copy":
		dst, src := args[0], args[1]
		if dst.S == SBytes {
			n := fmt.Sprintf("(ite (< (blen %s) (blen %s)) (blen %s) (blen %s))", dst.T, src.T, dst.T, src.T)
			nv := term(n, SInt, intT)
			if dst.K == KTerm && dst.Heap != "" && dst.Base != "" && src.S == SBytes {
				// the destination is a slice of a byte ARRAY: the copy writes the array's elements lo .. lo+n
				cur := st.heapGet(dst.Heap)
				na := e.freshConst(st, "cpa", "(Array Int Int)")
				lo := dst.Idx
				st.assume(fmt.Sprintf("(forall ((i Int)) (! (= (select %s i) (ite (and (<= %s i) (< i (+ %s %s))) (bat %s (- i %s)) (select (select %s %s) i))) :pattern ((select %s i))))",
					na, lo, lo, n, src.T, lo, cur, dst.Base, na))
				e.heapStore(st, dst.Heap, dst.Base, na)
				st.note("copy into a slice of a byte array: modelled as a write of the array elements")
				return nv
			}
			e.bytesWritten(st, "copy into []byte")
			return nv
		}
		n := fmt.Sprintf("(ite (< (slen %s) (slen %s)) (slen %s) (slen %s))", dst.T, src.T, dst.T, src.T)
		et := elemType(dst.Typ)
		if isStruct(et) {
			st.note("copy of []struct: element contents havocked")
			for _, l := range e.allLeaves("?", et) {
				e.heapHavoc(st, l.Heap)
			}
			return term(n, SInt, intT)
		}
		es := e.d.SortOf(et)
		h := e.d.ElemHeapT(et)
		cur := st.heapGet(h)
		na := e.freshConst(st, "cp", Sort(fmt.Sprintf("(Array Int %s)", es)))
		da, sa := app("sarr", dst.T), app("sarr", src.T)
		st.assume(fmt.Sprintf("(forall ((i Int)) (! (= (select %s i) (ite (and (<= (soff %s) i) (< i (+ (soff %s) %s))) (select (select %s %s) (+ (soff %s) (- i (soff %s)))) (select (select %s %s) i))) :pattern ((select %s i))))",
			na, dst.T, dst.T, n, cur, sa, src.T, dst.T, cur, da, na))
		// n > 0 requires a backing array
		e.heapStore(st, h, da, fmt.Sprintf("(ite (> %s 0) %s (select %s %s))", n, na, cur, da))
		return term(n, SInt, intT)
	case "delete":
		m, k := args[0], args[1]
		mt := m.Typ.Underlying().(*types.Map)
		dom, _, ln := e.d.MapHeaps(e.mapKeySort(mt), e.d.SortOf(mt.Elem()))
		kt := e.mapKey(mt, k)
		curd, curl := st.heapGet(dom), st.heapGet(ln)
		was := sel(sel(curd, m.T), kt)
		// delete on nil map is a no-op: guard by m != nil through ite on ref
		e.heapStore(st, ln, m.T, fmt.Sprintf("(- %s (ite %s 1 0))", sel(curl, m.T), was))
		e.heapStore(st, dom, m.T, store(sel(curd, m.T), kt, "false"))
		return Val{K: KUnit}
	case "print", "println", "close":
		return Val{K: KUnit}
	case "recover":
		return term("inil", SIface, types.NewInterfaceType(nil, nil))
	case "min", "max":
		op := "<"
		if b.Name() == "max" {
			op = ">"
		}
		acc := args[0].T
		for _, a := range args[1:] {
			acc = fmt.Sprintf("(ite (%s %s %s) %s %s)", op, acc, a.T, acc, a.T)
		}
		return term(acc, args[0].S, args[0].Typ)
	case "ssa:wrapnilchk":
		return args[0]
	case "ssa:deferstack":
		return term("rnil", SRef, call.Signature().Results().At(0).Type())
	}
	panic(unsupported("builtin " + b.Name()))
}

func (e *Engine) doAppend(st *State, call *ssa.CallCommon, args []Val, instr ssa.Instruction) Val {
	s, t := args[0], args[1]
	rt := call.Args[0].Type()
	if s.S == SBytes {
		e.needBcap()
		r := e.freshConst(st, "app", SBytes)
		tl := app("blen", t.T)
		st.assume(fmt.Sprintf("(and (= (blen %s) (+ (blen %s) %s)) (=> (> (blen %s) 0) (not (bnilp %s))) (=> (and (bnilp %s) (= %s 0)) (bnilp %s)) (=> (not (bnilp %s)) (not (bnilp %s))))", r, s.T, tl, r, r, s.T, tl, r, s.T, r))
		st.assume(fmt.Sprintf("(= %s %s)", r, e.mkBconcat(st, s.T, t.T)))
		e.bytesFacts(st, r)
		return term(r, SBytes, rt)
	}
	et := elemType(rt)
	n := e.freshConst(st, "apn", SSlice)
	inpl := e.freshConst(st, "inplace", SBool)
	tl := app("slen", t.T)
	if t.S == SBytes {
		tl = app("blen", t.T)
	}
	newLen := fmt.Sprintf("(+ (slen %s) %s)", s.T, tl)
	st.assume(fmt.Sprintf("(and (= (slen %s) %s) (>= (scap %s) (slen %s)) (>= (soff %s) 0) (=> (> (slen %s) 0) (not (= (sarr %s) rnil))))", n, newLen, n, n, n, n, n))
	// in place iff capacity suffices
	st.assume(fmt.Sprintf("(= %s (and (<= %s (scap %s)) (not (= (sarr %s) rnil))))", inpl, newLen, s.T, s.T))
	fr := e.freshConst(st, "aparr", SRef)
	st.assume(fmt.Sprintf("(=> (not %s) (>= (stamp %s) %s))", inpl, fr, st.alive))
	st.assume(fmt.Sprintf("(= (sarr %s) (ite %s (sarr %s) (ite (= %s 0) (sarr %s) %s)))", n, inpl, s.T, newLen, s.T, fr))
	st.assume(fmt.Sprintf("(=> %s (and (= (soff %s) (soff %s)) (= (scap %s) (scap %s))))", inpl, n, s.T, n, s.T))
	st.assume(fmt.Sprintf("(=> (and (not %s) (> %s 0)) (and (not (= %s rnil)) (= (soff %s) 0)))", inpl, newLen, fr, n))
	// alive update
	na := e.d.fresh("now")
	st.declare(na, SInt)
	st.assume(fmt.Sprintf("(and (>= %s %s) (> %s (stamp %s)))", na, st.alive, na, fr))
	st.alive = na
	if isStruct(et) {
		st.note("append to []struct: element field copy not modelled (element contents of the result unconstrained)")
		for _, l := range e.allLeaves("?", et) {
			e.heapHavoc(st, l.Heap)
		}
		return term(n, SSlice, rt)
	}
	h := e.d.ElemHeapT(et)
	cur := st.heapGet(h)
	nh := e.heapHavoc(st, h)
	// other arrays untouched
	st.assume(fmt.Sprintf("(forall ((r Ref)) (! (=> (not (= r (sarr %s))) (= (select %s r) (select %s r))) :pattern ((select %s r))))", n, nh, cur, nh))
	// element values of the result, by ABSOLUTE position p in the result's backing array (pattern-friendly)
	rel := fmt.Sprintf("(- p (soff %s))", n) // index relative to the result slice
	var srcElem string
	if t.S == SBytes {
		srcElem = fmt.Sprintf("(bat %s (- %s (slen %s)))", t.T, rel, s.T)
	} else {
		srcElem = fmt.Sprintf("(select (select %s (sarr %s)) (+ (soff %s) (- %s (slen %s))))", cur, t.T, t.T, rel, s.T)
	}
	st.assume(fmt.Sprintf("(forall ((p Int)) (! (=> (and (<= (soff %s) p) (< p (+ (soff %s) (slen %s)))) (= (select (select %s (sarr %s)) p) (ite (< %s (slen %s)) (select (select %s (sarr %s)) (+ (soff %s) %s)) %s))) :pattern ((select (select %s (sarr %s)) p))))",
		n, n, n, nh, n, rel, s.T, cur, s.T, s.T, rel, srcElem, nh, n))
	// in place: elements outside the appended window keep their values
	st.assume(fmt.Sprintf("(=> %s (forall ((i Int)) (! (=> (or (< i (+ (soff %s) (slen %s))) (>= i (+ (soff %s) (slen %s)))) (= (select (select %s (sarr %s)) i) (select (select %s (sarr %s)) i))) :pattern ((select (select %s (sarr %s)) i)))))",
		inpl, s.T, s.T, n, n, nh, n, cur, s.T, nh, n))
	return term(n, SSlice, rt)
}
