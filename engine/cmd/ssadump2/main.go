package main

import (
	"fmt"
	"os"
	"strings"

	"golang.org/x/tools/go/packages"
	"golang.org/x/tools/go/ssa"
	"golang.org/x/tools/go/ssa/ssautil"
)

func main() {
	pkgpath := os.Args[1]
	fn := os.Args[2]
	cfg := &packages.Config{Mode: packages.LoadAllSyntax, Dir: "/repo", BuildFlags: []string{"-tags=verif"}}
	pkgs, err := packages.Load(cfg, pkgpath)
	if err != nil {
		panic(err)
	}
	prog, spkgs := ssautil.AllPackages(pkgs, ssa.NaiveForm)
	prog.Build()
	for _, p := range spkgs {
		if p == nil {
			continue
		}
		for f := range ssautil.AllFunctions(prog) {
			if f.Pkg == p && strings.Contains(f.String(), fn) {
				f.WriteTo(os.Stdout)
				fmt.Println()
			}
		}
	}
}
