package main

import (
	"bufio"
	"fmt"
	"go/constant"
	"go/token"
	"go/types"
	"os"
	"sort"
	"strings"

	"golang.org/x/tools/go/ssa"
)

type Engine struct {
	prog    *ssa.Program
	fset    *token.FileSet
	d       *Decls
	cs      *Contracts
	fnByKey map[string]*ssa.Function
	pkgByPath map[string]*ssa.Package
	srcCache map[string][]string
	typeIDs  map[string]int
	immutableGlobals map[*ssa.Global]bool
	errGlobals map[*ssa.Global]int
	maxPaths int
	maxSteps int
	repoDir string
	curFn   *ssa.Function // function under verification
	curFC   *FuncContract
	results []*PathResult
	obNames map[string]int
	loopIdx map[*ssa.Function]map[*ssa.BasicBlock]int
	loopBlocks map[*ssa.BasicBlock]map[*ssa.BasicBlock]bool
	verbose bool
	specDone map[string]bool
	prune   func(st *State, cond string) (bool, bool)
	liveBlocks map[*ssa.BasicBlock]bool // order-only contracts: blocks from which a call named in an atcall clause is reachable
	localOK map[*ssa.Alloc]bool
	axiomsDone bool
}

type PathResult struct {
	items []Item
	decls []string
	id    int
}

func fnKey(f *ssa.Function) string {
	return strings.ReplaceAll(f.String(), modPrefix, "")
}

func (e *Engine) srcLine(p token.Position) string {
	if !p.IsValid() {
		return ""
	}
	lines, ok := e.srcCache[p.Filename]
	if !ok {
		f, err := os.Open(p.Filename)
		if err == nil {
			sc := bufio.NewScanner(f)
			sc.Buffer(make([]byte, 1<<20), 1<<20)
			for sc.Scan() {
				lines = append(lines, sc.Text())
			}
			f.Close()
		}
		e.srcCache[p.Filename] = lines
	}
	if p.Line-1 < len(lines) && p.Line >= 1 {
		return strings.TrimSpace(lines[p.Line-1])
	}
	return ""
}

func (e *Engine) typeID(t types.Type) int {
	k := types.TypeString(t, nil)
	if id, ok := e.typeIDs[k]; ok {
		return id
	}
	id := len(e.typeIDs) + 1
	e.typeIDs[k] = id
	return id
}

// ---------------------------------------------------------------- fresh values

func (e *Engine) freshConst(st *State, prefix string, s Sort) string {
	n := e.d.fresh(sanitize(prefix))
	st.declare(n, s)
	return n
}

func (e *Engine) freshVal(st *State, prefix string, t types.Type) Val {
	s := e.d.SortOf(t)
	if s == "Tuple" {
		tup := t.(*types.Tuple)
		var vs []Val
		for i := 0; i < tup.Len(); i++ {
			vs = append(vs, e.freshVal(st, fmt.Sprintf("%s_%d", prefix, i), tup.At(i).Type()))
		}
		return Val{K: KTuple, Elems: vs, Typ: t}
	}
	n := e.freshConst(st, prefix, s)
	v := term(n, s, t)
	e.assumeTyped(st, v)
	return v
}

func uintMax(t types.Type) (string, bool) {
	b, ok := t.Underlying().(*types.Basic)
	if !ok {
		return "", false
	}
	switch b.Kind() {
	case types.Uint8:
		return "255", true
	case types.Uint16:
		return "65535", true
	case types.Uint32:
		return "4294967295", true
	case types.Uint64, types.Uint, types.Uintptr:
		return "18446744073709551615", true
	}
	return "", false
}

func uintMod(t types.Type) (string, bool) {
	b, ok := t.Underlying().(*types.Basic)
	if !ok {
		return "", false
	}
	switch b.Kind() {
	case types.Uint8:
		return "256", true
	case types.Uint16:
		return "65536", true
	case types.Uint32:
		return "4294967296", true
	case types.Uint64, types.Uint, types.Uintptr:
		return "18446744073709551616", true
	}
	return "", false
}

// assumeTyped adds the type invariants of a value read from memory or received from outside.
func (e *Engine) assumeTyped(st *State, v Val) {
	e.assumeTypedAt(st, v, st.alive)
}

// assumeTypedAt: like assumeTyped, but references are known alive already at allocation time `bound`
// (the time the heap array version they were read from was created).
func (e *Engine) assumeTypedAt(st *State, v Val, bound string) {
	if v.K != KTerm || v.Typ == nil {
		return
	}
	key := v.T + "@" + bound
	if len(v.T) > 400 {
		// large terms: still add but do not memoise on text
	}
	if st.typed[key] {
		return
	}
	st.typed[key] = true
	switch v.S {
	case SInt:
		if mx, ok := uintMax(v.Typ); ok {
			st.assume(fmt.Sprintf("(and (<= 0 %s) (<= %s %s))", v.T, v.T, mx))
		} else if len(st.frames) > 0 && st.top().fc != nil && st.top().fc.Wraparound {
			// two's-complement mode: signed values are machine integers
			if half, _, ok := sintRange(v.Typ); ok {
				st.assume(fmt.Sprintf("(and (<= (- %s) %s) (< %s %s))", half, v.T, v.T, half))
			}
		}
	case SRef:
		st.assume(fmt.Sprintf("(or (= %s rnil) (< (stamp %s) %s))", v.T, v.T, bound))
	case SSlice:
		st.assume(fmt.Sprintf("(and (<= 0 (soff %s)) (<= 0 (slen %s)) (<= (slen %s) (scap %s)) (=> (= (sarr %s) rnil) (= (scap %s) 0)) (or (= (sarr %s) rnil) (< (stamp (sarr %s)) %s)))", v.T, v.T, v.T, v.T, v.T, v.T, v.T, v.T, bound))
	case SBytes:
		e.bytesFacts(st, v.T)
		if b, ok := v.Typ.Underlying().(*types.Basic); ok && b.Info()&types.IsString != 0 {
			st.assume(fmt.Sprintf("(not (bnilp %s))", v.T))
		}
	}
}

// ---------------------------------------------------------------- heap operations

func (e *Engine) heapStore(st *State, name string, idx, val string) {
	cur := st.heapGet(name)
	nn := e.d.fresh(name)
	srt := e.heapSort(name)
	st.declare(nn, srt)
	st.assume(eq(nn, store(cur, idx, val)))
	st.heap[name] = nn
	st.heapNow[name] = st.alive
	st.markMod(name)
	if st.dry != nil {
		if st.dry.mod.bases[name] == nil {
			st.dry.mod.bases[name] = map[string]bool{}
		}
		st.dry.mod.bases[name][idx] = true
	}
}

func (e *Engine) heapSet(st *State, name string, termv string) {
	nn := e.d.fresh(name)
	st.declare(nn, e.heapSort(name))
	st.assume(eq(nn, termv))
	st.heap[name] = nn
	st.heapNow[name] = st.alive
	st.markMod(name)
	if st.dry != nil {
		st.dry.mod.whole[name] = true
	}
}

func (e *Engine) heapHavoc(st *State, name string) string {
	nn := e.d.fresh(name)
	st.declare(nn, e.heapSort(name))
	st.heap[name] = nn
	st.heapNow[name] = st.alive
	st.markMod(name)
	if st.dry != nil {
		st.dry.mod.whole[name] = true
	}
	return nn
}

var heapSorts = map[string]Sort{}

func (e *Engine) heapSort(name string) Sort {
	if s, ok := heapSorts[name]; ok {
		return s
	}
	// look into decls
	key := "c:" + name
	if e.d.seen[key] {
		for _, t := range e.d.order {
			pre := "(declare-const " + name + " "
			if strings.HasPrefix(t, pre) {
				s := Sort(strings.TrimSuffix(strings.TrimPrefix(t, pre), ")"))
				heapSorts[name] = s
				return s
			}
		}
	}
	panic(unsupported("unknown heap array " + name))
}

func elemType(t types.Type) types.Type {
	switch u := t.Underlying().(type) {
	case *types.Pointer:
		return u.Elem()
	case *types.Slice:
		return u.Elem()
	case *types.Array:
		return u.Elem()
	case *types.Map:
		return u.Elem()
	}
	panic(unsupported("elemType of " + t.String()))
}

func isStruct(t types.Type) bool {
	_, ok := t.Underlying().(*types.Struct)
	return ok
}
func isArray(t types.Type) bool {
	_, ok := t.Underlying().(*types.Array)
	return ok
}

// loadStruct builds the datatype value of struct type t stored at ref r.
func (e *Engine) loadStruct(st *State, r string, t types.Type) string {
	si := e.d.StructOf(t)
	if len(si.Fields) == 0 {
		return "mk_" + si.Name
	}
	var parts []string
	for i := 0; i < si.T.NumFields(); i++ {
		ft := si.T.Field(i).Type()
		if isStruct(ft) {
			parts = append(parts, e.loadStruct(st, e.mkSub(st, t, i, r), ft))
		} else {
			h, _ := e.d.FieldHeap(t, i)
			parts = append(parts, sel(st.heapGet(h), r))
		}
	}
	return fmt.Sprintf("(mk_%s %s)", si.Name, strings.Join(parts, " "))
}

func (e *Engine) storeStruct(st *State, r string, t types.Type, v string) {
	si := e.d.StructOf(t)
	for i := 0; i < si.T.NumFields(); i++ {
		ft := si.T.Field(i).Type()
		fv := app(si.Fields[i], v)
		if isStruct(ft) {
			e.storeStruct(st, e.mkSub(st, t, i, r), ft, fv)
		} else {
			h, _ := e.d.FieldHeap(t, i)
			e.heapStore(st, h, r, fv)
		}
	}
}

func (e *Engine) havocStructAt(st *State, r string, t types.Type) {
	si := e.d.StructOf(t)
	for i := 0; i < si.T.NumFields(); i++ {
		ft := si.T.Field(i).Type()
		if isStruct(ft) {
			e.havocStructAt(st, e.mkSub(st, t, i, r), ft)
		} else {
			h, s := e.d.FieldHeap(t, i)
			fv := e.freshConst(st, "hv", s)
			e.heapStore(st, h, r, fv)
		}
	}
}

// allocObject allocates a fresh heap object of type t (struct or array) and returns its ref.
func (e *Engine) allocRef(st *State, prefix string) string {
	r := e.freshConst(st, prefix, SRef)
	st.assume(fmt.Sprintf("(and (not (= %s rnil)) (= (stamp %s) %s))", r, r, st.alive))
	na := e.d.fresh("now")
	st.declare(na, SInt)
	st.assume(fmt.Sprintf("(= %s (+ %s 1))", na, st.alive))
	st.alive = na
	st.fresh = append(st.fresh, r)
	return r
}

func (e *Engine) allocObject(st *State, t types.Type, prefix string) Val {
	r := e.allocRef(st, prefix)
	switch u := t.Underlying().(type) {
	case *types.Struct:
		e.storeStruct(st, r, t, e.d.Zero(e.d.SortOf(t), t))
	case *types.Array:
		if isStruct(u.Elem()) {
			// array of structs: elements are interior refs; zero-init not modelled element-wise
			st.note("array-of-struct allocation: element zero-initialisation not modelled")
		} else {
			h := e.d.ElemHeapT(u.Elem())
			e.heapStore(st, h, r, e.d.Zero(e.d.SortOf(t), t))
		}
	default:
		panic(unsupported("allocObject of " + t.String()))
	}
	return term(r, SRef, types.NewPointer(t))
}

func (e *Engine) load(st *State, a Val, pos token.Pos) Val {
	switch a.K {
	case KCell:
		v, ok := st.cells[a.Cell]
		if !ok {
			panic(unsupported("load of unknown cell"))
		}
		return v
	case KCellPath:
		cv, ok := st.cells[a.Cell]
		if !ok {
			panic(unsupported("load of unknown cell"))
		}
		t := cv.T
		cur := a.Root
		for _, idx := range a.Path {
			si := e.d.StructOf(cur)
			t = app(si.Fields[idx], t)
			cur = si.T.Field(idx).Type()
		}
		v := term(t, e.d.SortOf(cur), cur)
		e.assumeTyped(st, v)
		return v
	case KField:
		et := elemType(a.Typ)
		v := term(sel(st.heapGet(a.Heap), a.Base), e.d.SortOf(et), et)
		e.assumeTypedAt(st, v, st.loadBound(a.Heap, a.Base))
		return v
	case KElem:
		et := elemType(a.Typ)
		v := term(sel(sel(st.heapGet(a.Heap), a.Base), a.Idx), e.d.SortOf(et), et)
		e.assumeTypedAt(st, v, st.loadBound(a.Heap, a.Base))
		return v
	case KArrPtr:
		et := elemType(a.Typ)
		return term(sel(st.heapGet(a.Heap), a.Base), e.d.SortOf(et), et)
	case KByteElem:
		return term(e.mkBat(st, a.T, a.Idx), SInt, elemType(a.Typ))
	case KGlobal:
		return e.loadGlobal(st, a.G)
	case KTerm:
		// pointer term
		pt, ok := a.Typ.Underlying().(*types.Pointer)
		if !ok {
			panic(unsupported("load through non-pointer " + a.Typ.String()))
		}
		et := pt.Elem()
		if isStruct(et) {
			return term(e.loadStruct(st, a.T, et), e.d.SortOf(et), et)
		}
		if isArray(et) {
			return term(sel(st.heapGet(e.d.ElemHeapT(elemType(et))), a.T), e.d.SortOf(et), et)
		}
		s := e.d.SortOf(et)
		v := term(sel(st.heapGet(e.d.BoxHeap(s)), a.T), s, et)
		e.assumeTypedAt(st, v, st.loadBound(e.d.BoxHeap(s), a.T))
		return v
	}
	panic(unsupported(fmt.Sprintf("load kind %d", a.K)))
}

func (e *Engine) store(st *State, a Val, v Val) {
	switch a.K {
	case KCell:
		st.cells[a.Cell] = v
		if st.dry != nil {
			st.dry.mod.cells[a.Cell] = true
		}
	case KCellPath:
		cv := st.cells[a.Cell]
		nv := e.updatePath(cv.T, a.Root, a.Path, e.asTerm(st, v))
		st.cells[a.Cell] = term(nv, cv.S, cv.Typ)
		if st.dry != nil {
			st.dry.mod.cells[a.Cell] = true
		}
	case KField:
		e.onWrite(st, a, v)
		e.heapStore(st, a.Heap, a.Base, e.asTerm(st, v))
	case KElem:
		cur := st.heapGet(a.Heap)
		e.heapStore(st, a.Heap, a.Base, store(sel(cur, a.Base), a.Idx, e.asTerm(st, v)))
	case KArrPtr:
		e.heapStore(st, a.Heap, a.Base, e.asTerm(st, v))
	case KByteElem:
		e.bytesWritten(st, "store into []byte element")
	case KGlobal:
		st.globals[a.G.String()] = v
		if st.dry != nil {
			st.dry.mod.globals[a.G.String()] = true
		}
	case KTerm:
		pt, ok := a.Typ.Underlying().(*types.Pointer)
		if !ok {
			panic(unsupported("store through non-pointer"))
		}
		et := pt.Elem()
		if isStruct(et) {
			e.storeStruct(st, a.T, et, e.asTerm(st, v))
			return
		}
		if isArray(et) {
			e.heapStore(st, e.d.ElemHeapT(elemType(et)), a.T, e.asTerm(st, v))
			return
		}
		s := e.d.SortOf(et)
		e.heapStore(st, e.d.BoxHeap(s), a.T, e.asTerm(st, v))
	default:
		panic(unsupported(fmt.Sprintf("store kind %d", a.K)))
	}
}

// asTerm converts a value to an SMT term (closures/functions become opaque refs).
func (e *Engine) asTerm(st *State, v Val) string {
	switch v.K {
	case KTerm:
		return v.T
	case KClosure, KFunc:
		name := "fn_" + sanitize(fnKey(v.Fn))
		e.d.konst(name, SRef)
		e.d.axiom(fmt.Sprintf("(not (= %s rnil))", name))
		return name
	case KCell, KField, KElem, KByteElem, KGlobal, KArrPtr:
		// address escaping into a term: opaque non-nil ref
		r := e.freshConst(st, "addr", SRef)
		st.assume(fmt.Sprintf("(not (= %s rnil))", r))
		st.note("address of a local/field stored as a value: aliasing through it not modelled")
		return r
	case KUnit:
		return "0"
	}
	panic(unsupported(fmt.Sprintf("asTerm kind %d", v.K)))
}

func (e *Engine) loadGlobal(st *State, g *ssa.Global) Val {
	if v, ok := st.globals[g.String()]; ok {
		return v
	}
	t := g.Type().(*types.Pointer).Elem()
	s := e.d.SortOf(t)
	name := "G_" + sanitize(shortPkg(g.Pkg.Pkg.Path())) + "_" + sanitize(g.Name())
	if s == "Tuple" {
		panic(unsupported("tuple-valued global " + g.String()))
	}
	if isStruct(t) {
		e.d.StructOf(t)
	}
	e.d.konst(name, s)
	if id, ok := e.errGlobals[g]; ok {
		e.d.fun("errid", []Sort{SIface}, SInt)
		e.d.axiom(fmt.Sprintf("(and (not (= %s inil)) (= (errid %s) %d))", name, name, id))
	}
	v := term(name, s, t)
	e.assumeTyped(st, v)
	return v
}

func (e *Engine) bytesWritten(st *State, why string) {
	st.note("byte content written (" + why + "): contents of all []byte values havocked, lengths kept")
	if st.dry != nil {
		st.dry.mod.bytes = true
	}
	e.havocBytes(st)
}

// havocBytes replaces every Bytes-sorted cell, register and heap array by a fresh value of the same length/nil-ness.
func (e *Engine) havocBytes(st *State) {
	fresh := func(v Val) Val {
		if v.K != KTerm || v.S != SBytes {
			return v
		}
		if b, ok := v.Typ.Underlying().(*types.Basic); ok && b.Info()&types.IsString != 0 {
			return v
		}
		if v.T == "bnil" || v.T == "bempty" {
			return v
		}
		n := e.freshConst(st, "bw", SBytes)
		st.assume(fmt.Sprintf("(and (= (blen %s) (blen %s)) (= (bnilp %s) (bnilp %s)) (= (bcap %s) (bcap %s)))", n, v.T, n, v.T, n, v.T))
		return term(n, SBytes, v.Typ)
	}
	e.needBcap()
	for id, v := range st.cells {
		st.cells[id] = fresh(v)
	}
	for _, f := range st.frames {
		for k, v := range f.regs {
			f.regs[k] = fresh(v)
		}
	}
	// heap arrays of Bytes sort
	names := map[string]bool{}
	for n := range st.heap {
		names[n] = true
	}
	for k := range e.d.seen {
		if strings.HasPrefix(k, "c:H_") || strings.HasPrefix(k, "c:P_") {
			names[strings.TrimPrefix(k, "c:")] = true
		}
	}
	for n := range names {
		if e.heapSort(n) == "(Array Ref Bytes)" {
			old := st.heapGet(n)
			nn := e.heapHavoc(st, n)
			st.assume(fmt.Sprintf("(forall ((r Ref)) (! (and (= (blen (select %s r)) (blen (select %s r))) (= (bnilp (select %s r)) (bnilp (select %s r)))) :pattern ((select %s r))))", nn, old, nn, old, nn))
		}
	}
}

func (e *Engine) needBcap() {}

// ---------------------------------------------------------------- obligations

func (e *Engine) oblige(st *State, class string, pos token.Pos, detail string, goal string) {
	if st.dry != nil {
		return
	}
	if goal == "true" {
		// trivially discharged but still counted
	}
	p := e.fset.Position(pos)
	base := fmt.Sprintf("%s/%s", e.obPrefix(st), class)
	if detail != "" {
		base += "[" + detail + "]"
	}
	if strings.HasPrefix(class, "safety:") {
		// the same goal already checked earlier on this path (facts only grow): implied
		key := "ob:" + goal
		if st.typed[key] {
			return
		}
		st.typed[key] = true
	}
	// a conjunction is checked conjunct by conjunct (smaller, more stable queries), each assumed once checked
	for _, g := range splitAnd(goal) {
		ob := &Oblig{Name: base, Class: class, Pos: p, Goal: g, Detail: detail}
		if len(g) > 40 && st.typed["fact:"+g] {
			// textually identical to a fact already assumed on this path (same heap versions): discharged syntactically
			ob.Goal = "true"
			ob.Syntactic = true
		}
		st.items = append(st.items, Item{Kind: ItOblig, Ob: ob})
		// assert-then-assume: later obligations on this path are checked under "no earlier failure"
		if class != "canary" && g != "false" {
			st.assume(g)
		}
	}
}

// splitAnd flattens nested top-level conjunctions of an SMT term.
func splitAnd(t string) []string {
	t = strings.TrimSpace(t)
	if !strings.HasPrefix(t, "(and ") {
		return []string{t}
	}
	inner := t[5 : len(t)-1]
	var parts []string
	depth := 0
	start := -1
	for i := 0; i < len(inner); i++ {
		c := inner[i]
		switch {
		case c == '(':
			if depth == 0 && start < 0 {
				start = i
			}
			depth++
		case c == ')':
			depth--
			if depth == 0 && start >= 0 {
				parts = append(parts, inner[start:i+1])
				start = -1
			}
		case c == ' ' || c == '\n' || c == '\t':
			if depth == 0 && start >= 0 {
				parts = append(parts, inner[start:i])
				start = -1
			}
		default:
			if depth == 0 && start < 0 {
				start = i
			}
		}
	}
	if start >= 0 {
		parts = append(parts, inner[start:])
	}
	var out []string
	for _, p := range parts {
		out = append(out, splitAnd(p)...)
	}
	if len(out) == 0 {
		return []string{"true"}
	}
	return out
}

func (e *Engine) obPrefix(st *State) string {
	// name of the innermost function (closures carry their own name)
	f := st.top().fn
	return shortFn(f)
}

func shortFn(f *ssa.Function) string {
	k := fnKey(f)
	// shorten package path to last element
	k = strings.ReplaceAll(k, "gemmill/modules/", "")
	k = strings.ReplaceAll(k, "gemmill/consensus/", "")
	k = strings.ReplaceAll(k, "gemmill/", "")
	k = strings.ReplaceAll(k, "chain/app/", "")
	return k
}

func (e *Engine) safety(st *State, class string, instr ssa.Instruction, goal string) {
	fr := st.top()
	if fr.fc != nil && fr.fc.NoSafety {
		// no obligation, but execution continues past this point only if the operation did not panic
		if goal != "true" {
			st.assume(goal)
		}
		return
	}
	pos := instr.Pos()
	if !pos.IsValid() {
		// find the nearest positioned instruction
		pos = nearestPos(instr)
	}
	detail := e.srcLine(e.fset.Position(pos))
	if len(detail) > 70 {
		detail = detail[:70]
	}
	// a run-time panic here is acceptable only under the function's declared `aborts when` conditions
	if st.dry == nil && goal != "true" {
		root := st.frames[0]
		if root.fc != nil && len(root.fc.Aborts) > 0 {
			var alts []string
			for _, c := range root.fc.Aborts {
				env := e.envFor(st, root, nil)
				alts = append(alts, e.evalBool(env, c))
			}
			e.oblige(st, "safety:"+class, pos, detail, or(append([]string{goal}, alts...)...))
			st.assume(goal) // execution continues only if the operation did not panic
			return
		}
	}
	e.oblige(st, "safety:"+class, pos, detail, goal)
}

func nearestPos(instr ssa.Instruction) token.Pos {
	b := instr.Block()
	idx := -1
	for i, in := range b.Instrs {
		if in == instr {
			idx = i
		}
	}
	for i := idx; i < len(b.Instrs) && i >= 0; i++ {
		if b.Instrs[i].Pos().IsValid() {
			return b.Instrs[i].Pos()
		}
	}
	for i := idx; i >= 0; i-- {
		if b.Instrs[i].Pos().IsValid() {
			return b.Instrs[i].Pos()
		}
	}
	return b.Parent().Pos()
}

// ---------------------------------------------------------------- values of operands

func (e *Engine) constVal(c *ssa.Const, st *State) Val {
	t := c.Type()
	if c.Value == nil {
		// zero value / nil
		s := e.d.SortOf(t)
		if s == "Tuple" {
			panic(unsupported("nil tuple const"))
		}
		if isStruct(t) {
			e.d.StructOf(t)
		}
		return term(e.d.Zero(s, t), s, t)
	}
	switch c.Value.Kind() {
	case constant.Bool:
		if constant.BoolVal(c.Value) {
			return term("true", SBool, t)
		}
		return term("false", SBool, t)
	case constant.Int:
		s := c.Value.ExactString()
		if strings.HasPrefix(s, "-") {
			s = "(- " + s[1:] + ")"
		}
		if e.d.SortOf(t) == SFloat {
			return term(e.floatConst(s), SFloat, t)
		}
		return term(s, SInt, t)
	case constant.String:
		return e.stringConst(constant.StringVal(c.Value), t)
	case constant.Float, constant.Complex:
		return term(e.floatConst(c.Value.ExactString()), SFloat, t)
	}
	panic(unsupported("const " + c.String()))
}

func (e *Engine) floatConst(s string) string {
	n := "flt_" + sanitize(s)
	e.d.konst(n, SFloat)
	return n
}

func (e *Engine) stringConst(s string, t types.Type) Val {
	if s == "" {
		return term("bempty", SBytes, t)
	}
	name := "str_" + sanitize(s)
	if len(name) > 40 {
		name = name[:40]
	}
	name = fmt.Sprintf("%s_%x", name, fnv32(s))
	if !e.d.seen["c:"+name] {
		e.d.konst(name, SBytes)
		e.d.fun("strid", []Sort{SBytes}, SInt)
		e.d.axiom(fmt.Sprintf("(and (= (blen %s) %d) (not (bnilp %s)) (= (strid %s) %d))", name, len(s), name, name, fnv32(s)))
		// first bytes (useful for prefix tests)
		for i := 0; i < len(s) && i < 4; i++ {
			e.d.axiom(fmt.Sprintf("(= (bat %s %d) %d)", name, i, s[i]))
		}
	}
	return term(name, SBytes, t)
}

func fnv32(s string) uint32 {
	h := uint32(2166136261)
	for i := 0; i < len(s); i++ {
		h ^= uint32(s[i])
		h *= 16777619
	}
	return h
}

func (e *Engine) val(st *State, v ssa.Value) Val {
	fr := st.top()
	switch x := v.(type) {
	case *ssa.Const:
		return e.constVal(x, st)
	case *ssa.Global:
		return Val{K: KGlobal, G: x, Typ: x.Type()}
	case *ssa.Function:
		return Val{K: KFunc, Fn: x, Typ: x.Type()}
	case *ssa.FreeVar:
		if b, ok := fr.free[x]; ok {
			return b
		}
		panic(unsupported("unbound free variable " + x.Name()))
	case *ssa.Builtin:
		return Val{K: KUnit, T: x.Name()}
	}
	if r, ok := fr.regs[v]; ok {
		return r
	}
	panic(unsupported(fmt.Sprintf("value %s (%T) not available in %s", v.Name(), v, fr.fn.Name())))
}

func (e *Engine) setReg(st *State, v ssa.Value, x Val) {
	st.top().regs[v] = x
}

// ---------------------------------------------------------------- loops

func (e *Engine) analyzeLoops(fn *ssa.Function) {
	if _, ok := e.loopIdx[fn]; ok {
		return
	}
	idx := map[*ssa.BasicBlock]int{}
	var headers []*ssa.BasicBlock
	for _, b := range fn.Blocks {
		for _, p := range b.Preds {
			if b.Dominates(p) {
				if _, seen := idx[b]; !seen {
					idx[b] = -1
					headers = append(headers, b)
				}
				// natural loop body
				body := e.loopBlocks[b]
				if body == nil {
					body = map[*ssa.BasicBlock]bool{b: true}
					e.loopBlocks[b] = body
				}
				var stack []*ssa.BasicBlock
				if !body[p] {
					body[p] = true
					stack = append(stack, p)
				}
				for len(stack) > 0 {
					x := stack[len(stack)-1]
					stack = stack[:len(stack)-1]
					for _, q := range x.Preds {
						if !body[q] {
							body[q] = true
							stack = append(stack, q)
						}
					}
				}
			}
		}
	}
	sort.Slice(headers, func(i, j int) bool { return headers[i].Index < headers[j].Index })
	for i, h := range headers {
		idx[h] = i
	}
	e.loopIdx[fn] = idx
}

var _ = bufio.NewReader

// ---------------------------------------------------------------- instance facts (quantifier-free theory of bytes / interior refs)

func hasBound(t string) bool {
	return strings.Contains(t, "q_") || strings.Contains(t, "fr_r") || strings.Contains(t, "fr_i")
}

func (e *Engine) fact(st *State, key, text string) {
	if st == nil || hasBound(text) {
		return
	}
	if st.typed[key] {
		return
	}
	st.typed[key] = true
	st.assume(text)
}

func (e *Engine) bytesFacts(st *State, b string) {
	if b == "bnil" || b == "bempty" {
		return
	}
	e.fact(st, "bytes:"+b, fmt.Sprintf("(and (>= (blen %s) 0) (>= (bcap %s) (blen %s)) (=> (bnilp %s) (and (= (blen %s) 0) (= (bcap %s) 0))))", b, b, b, b, b, b))
}

func (e *Engine) mkSub(st *State, t types.Type, i int, base string) string {
	name := e.d.SubRef(t, i)
	r := app(name, base)
	e.fact(st, "sub:"+r, fmt.Sprintf("(and (= (%s_inv %s) %s) (not (= %s rnil)) (= (stamp %s) (stamp %s)))", name, r, base, r, r, base))
	return r
}

func (e *Engine) mkERef(st *State, et types.Type, arr, idx string) string {
	name := e.d.ERef(et)
	r := app(name, arr, idx)
	e.fact(st, "eref:"+r, fmt.Sprintf("(and (= (%s_a %s) %s) (= (%s_i %s) %s) (not (= %s rnil)) (= (stamp %s) (stamp %s)))", name, r, arr, name, r, idx, r, r, arr))
	return r
}

func (e *Engine) mkBslice(st *State, b, lo, hi string) string {
	r := app("bslice", b, lo, hi)
	e.bytesFacts(st, b)
	e.fact(st, "bslice:"+r, fmt.Sprintf("(and (=> (and (<= 0 %s) (<= %s %s) (<= %s (bcap %s))) (and (= (blen %s) (- %s %s)) (= (bcap %s) (- (bcap %s) %s)))) (=> (not (bnilp %s)) (not (bnilp %s))) (>= (blen %s) 0) (>= (bcap %s) (blen %s)) (=> (bnilp %s) (= (blen %s) 0)))",
		lo, lo, hi, hi, b, r, hi, lo, r, b, lo, b, r, r, r, r, r, r))
	return r
}

func (e *Engine) mkBat(st *State, b, i string) string {
	r := app("bat", b, i)
	e.fact(st, "bat:"+r, fmt.Sprintf("(and (<= 0 %s) (<= %s 255))", r, r))
	return r
}

func (e *Engine) mkBconcat(st *State, a, b string) string {
	r := app("bconcat", a, b)
	e.bytesFacts(st, a)
	e.bytesFacts(st, b)
	e.fact(st, "bconcat:"+r, fmt.Sprintf("(and (= (blen %s) (+ (blen %s) (blen %s))) (>= (bcap %s) (blen %s)) (=> (bnilp %s) (= (blen %s) 0)))", r, a, b, r, r, r, r))
	return r
}

// onWrite emits the `onwrite` obligations of the function under verification for a store to a struct field.
func (e *Engine) onWrite(st *State, a Val, v Val) {
	if st.dry != nil || len(st.frames) == 0 {
		return
	}
	root := st.frames[0]
	if root.fc == nil || len(root.fc.OnWrites) == 0 {
		return
	}
	for _, ow := range root.fc.OnWrites {
		suffix := "_" + ow.Type + "_" + sanitize(ow.Field)
		if !strings.HasSuffix(a.Heap, suffix) {
			continue
		}
		env := e.envFor(st, root, nil)
		env.preferCells = true
		nv := v
		if nv.K != KTerm {
			nv = term(e.asTerm(st, v), SRef, nil)
		}
		env.vars["newval"] = nv
		fr := st.top()
		pos := fr.fn.Pos()
		if fr.idx > 0 && fr.idx <= len(fr.blk.Instrs) {
			pos = nearestPos(fr.blk.Instrs[fr.idx-1])
		}
		d := ow.C.Tag
		if d == "" {
			d = ow.C.Text
		}
		e.oblige(st, "onwrite("+ow.Type+"."+ow.Field+")", pos, d, e.evalBool(env, ow.C))
	}
}

// updatePath returns the struct value `val` (of type t) with the field at `path` replaced by nv.
func (e *Engine) updatePath(val string, t types.Type, path []int, nv string) string {
	si := e.d.StructOf(t)
	var parts []string
	for i := range si.Fields {
		if i == path[0] {
			if len(path) == 1 {
				parts = append(parts, nv)
			} else {
				parts = append(parts, e.updatePath(app(si.Fields[i], val), si.T.Field(i).Type(), path[1:], nv))
			}
		} else {
			parts = append(parts, app(si.Fields[i], val))
		}
	}
	if len(parts) == 0 {
		return "mk_" + si.Name
	}
	return fmt.Sprintf("(mk_%s %s)", si.Name, strings.Join(parts, " "))
}
