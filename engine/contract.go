package main

// Contract files: Gobra-style `//@` comment lines.

import (
	"bufio"
	"fmt"
	"go/ast"
	"go/parser"
	"os"
	"path/filepath"
	"regexp"
	"strconv"
	"strings"
)

type Clause struct {
	Text string   // source text
	Expr ast.Expr // parsed
	Tag  string   // optional label (name:)
	Line int
	File string
	Local bool // `check`: proved at the function's returns (may name locals), not exported to callers
}

type AtCall struct {
	Callee string // suffix-matched against callee key / name
	Kind   string // "assert" | "set" | "assume-never" ...
	Ghost  string
	C      Clause
}

// OnWrite: at every store to Type.Field inside the function (including inlined closures), C must hold
// (evaluated just before the store, `newval` bound to the stored value).
type OnWrite struct {
	Type, Field string
	C           Clause
}

type LoopSpec struct {
	Invariants []Clause
}

type FuncContract struct {
	Key      string // normalized function key
	PkgPath  string // package path the contract file belongs to ("" for extern specs)
	Props    []string
	Requires []Clause
	Defines  []Clause // definitional axioms about spec functions, assumed only when verifying this function's body
	InvAssumed []Clause // object invariants of the receiver: assumed at entry of the body, not checked at call sites
	Ensures  []Clause
	TrustedEnsures []Clause // assumed at call sites, NOT checked against the body (listed as assumptions)
	Assigns  []Clause // each a location expression
	HasAssigns bool
	FrameTrusted bool
	AssignsEverything bool
	Aborts   []Clause // allowed panic conditions
	Loops    map[int]*LoopSpec
	AtCalls  []AtCall
	OnWrites []OnWrite
	Pure     bool
	Trusted  bool
	NoReturn bool // callee never returns (PanicSanity...)
	NoAlloc  bool // callee returns no freshly allocated object (allocation clock not advanced at call sites)
	NoSafety bool
	OrderOnly bool
	Wraparound bool // signed arithmetic of this function wraps (two's complement) instead of being mathematical
	Inline   bool
	Lets     []LetDef
	File     string
	Line     int
	Used     bool
}

type LetDef struct {
	Name string
	C    Clause
}

type SpecParam struct {
	Name string
	Type string // sort name or Go type expression
}

type SpecFunc struct {
	Name   string
	Params []SpecParam
	Result string
	Body   *Clause // nil => uninterpreted
	IsPred bool    // macro over heap
	PkgPath string
}

type Axiom struct {
	Name string
	C    Clause
	PkgPath string
}

type Lemma struct {
	Name  string
	C     Clause
	Props []string
	PkgPath string
}

type WritersSpec struct {
	Type, Field string
	Allowed     []string
	Props       []string
	PkgPath     string
	Line        int
}

// DefersSpec: structural obligation — function Func defers a call to Callee in its entry block
// (used for "a panic in peer-message handling is confined to the connection").
type DefersSpec struct {
	Func, Callee string
	Props        []string
	PkgPath      string
}

type GhostVar struct {
	Name string
	Sort string
}

type Contracts struct {
	Funcs   map[string]*FuncContract
	Specs   map[string]*SpecFunc
	Axioms  []*Axiom
	Lemmas  []*Lemma
	Writers []*WritersSpec
	Defers  []*DefersSpec
	Ghosts  map[string]*GhostVar
	Files   []string
	PurePkgs map[string]bool // packages whose functions are assumed to assign nothing (logging, formatting)
	PurePrefixes []string    // function-key prefixes assumed to assign nothing (event firing)
	Models map[string]string // external function key -> key of a Go-written model function (contracts/models/*.go)
}

func NewContracts() *Contracts {
	return &Contracts{Funcs: map[string]*FuncContract{}, Specs: map[string]*SpecFunc{}, Ghosts: map[string]*GhostVar{}, PurePkgs: map[string]bool{}, Models: map[string]string{}}
}

// rewriteSpec turns spec-only syntax into parseable Go:
//   A ==> B        -> implies__(A, B)   (lowest precedence, right assoc)
//   x.f[*]         -> x.f[all__]
//   x.*            -> x.all__
//   $i             -> iter__
func rewriteSpec(s string) string {
	s = strings.ReplaceAll(s, "[*]", "[all__]")
	s = strings.ReplaceAll(s, ".*", ".all__")
	s = strings.ReplaceAll(s, "$i", "iter__")
	return rewriteImplies(s)
}

func rewriteImplies(s string) string {
	// find top-level ==>
	depth := 0
	inStr := false
	for i := 0; i < len(s); i++ {
		c := s[i]
		if inStr {
			if c == '\\' {
				i++
			} else if c == '"' {
				inStr = false
			}
			continue
		}
		switch c {
		case '"':
			inStr = true
		case '(', '[', '{':
			depth++
		case ')', ']', '}':
			depth--
		case '=':
			if depth == 0 && strings.HasPrefix(s[i:], "==>") {
				return "implies__(" + rewriteImplies(s[:i]) + ", " + rewriteImplies(s[i+3:]) + ")"
			}
		}
	}
	// no top-level implication: recurse into bracketed groups, splitting on top-level commas
	var sb strings.Builder
	i := 0
	for i < len(s) {
		c := s[i]
		if c == '"' {
			j := i + 1
			for j < len(s) && s[j] != '"' {
				if s[j] == '\\' {
					j++
				}
				j++
			}
			sb.WriteString(s[i:min(j+1, len(s))])
			i = j + 1
			continue
		}
		if c == '(' || c == '[' {
			// find matching close
			close := byte(')')
			if c == '[' {
				close = ']'
			}
			d := 0
			j := i
			instr := false
			for ; j < len(s); j++ {
				if instr {
					if s[j] == '\\' {
						j++
					} else if s[j] == '"' {
						instr = false
					}
					continue
				}
				if s[j] == '"' {
					instr = true
				} else if s[j] == '(' || s[j] == '[' || s[j] == '{' {
					d++
				} else if s[j] == ')' || s[j] == ']' || s[j] == '}' {
					d--
					if d == 0 {
						break
					}
				}
			}
			if j >= len(s) {
				sb.WriteString(s[i:])
				break
			}
			inner := s[i+1 : j]
			parts := splitTop(inner, ',')
			for k, p := range parts {
				parts[k] = rewriteImplies(p)
			}
			sb.WriteByte(c)
			sb.WriteString(strings.Join(parts, ","))
			sb.WriteByte(close)
			i = j + 1
			continue
		}
		sb.WriteByte(c)
		i++
	}
	return sb.String()
}

func splitTop(s string, sep byte) []string {
	var parts []string
	depth := 0
	inStr := false
	last := 0
	for i := 0; i < len(s); i++ {
		c := s[i]
		if inStr {
			if c == '\\' {
				i++
			} else if c == '"' {
				inStr = false
			}
			continue
		}
		switch c {
		case '"':
			inStr = true
		case '(', '[', '{':
			depth++
		case ')', ']', '}':
			depth--
		default:
			if c == sep && depth == 0 {
				parts = append(parts, s[last:i])
				last = i + 1
			}
		}
	}
	parts = append(parts, s[last:])
	return parts
}

var reTag = regexp.MustCompile(`^\[([A-Za-z0-9_\-]+)\]\s*(.*)$`)

func parseClause(text, file string, line int) (Clause, error) {
	c := Clause{Text: strings.TrimSpace(text), File: file, Line: line}
	if m := reTag.FindStringSubmatch(c.Text); m != nil {
		c.Tag, c.Text = m[1], m[2]
	}
	src := rewriteSpec(c.Text)
	e, err := parser.ParseExpr(src)
	if err != nil {
		return c, fmt.Errorf("%s:%d: cannot parse %q: %v", file, line, c.Text, err)
	}
	c.Expr = e
	return c, nil
}

var reSpecSig = regexp.MustCompile(`^([A-Za-z_][A-Za-z0-9_]*)\s*\((.*?)\)\s*([^=]*?)\s*(=\s*(.*))?$`)

func parseParams(s string) []SpecParam {
	var ps []SpecParam
	s = strings.TrimSpace(s)
	if s == "" {
		return nil
	}
	for _, p := range splitTop(s, ',') {
		p = strings.TrimSpace(p)
		i := strings.IndexAny(p, " \t")
		if i < 0 {
			ps = append(ps, SpecParam{Name: p, Type: ""})
			continue
		}
		ps = append(ps, SpecParam{Name: p[:i], Type: strings.TrimSpace(p[i+1:])})
	}
	// Go-style "a, b T": propagate types backwards
	for i := len(ps) - 2; i >= 0; i-- {
		if ps[i].Type == "" {
			ps[i].Type = ps[i+1].Type
		}
	}
	return ps
}

// LoadContractFile parses one file of //@ lines. pkgPath is the package the file sits in
// (short path, e.g. gemmill/types) or "" for extern spec files.
func (cs *Contracts) LoadContractFile(file, pkgPath string) error {
	f, err := os.Open(file)
	if err != nil {
		return err
	}
	defer f.Close()
	cs.Files = append(cs.Files, file)
	sc := bufio.NewScanner(f)
	sc.Buffer(make([]byte, 1<<20), 1<<20)
	var cur *FuncContract
	var curLemma *Lemma
	var curWriters *WritersSpec
	var curDefers *DefersSpec
	ln := 0
	// join continuation lines: a line whose //@ body starts with "\" continues the previous
	type rawLine struct {
		text string
		line int
	}
	var lines []rawLine
	for sc.Scan() {
		ln++
		t := strings.TrimSpace(sc.Text())
		if !strings.HasPrefix(t, "//@") {
			continue
		}
		body := strings.TrimSpace(strings.TrimPrefix(t, "//@"))
		if body == "" || strings.HasPrefix(body, "//") || strings.HasPrefix(body, "#") {
			continue
		}
		if len(lines) > 0 && strings.HasSuffix(lines[len(lines)-1].text, "\\") {
			prev := strings.TrimSuffix(lines[len(lines)-1].text, "\\")
			lines[len(lines)-1].text = strings.TrimSpace(prev) + " " + strings.TrimPrefix(body, "\\")
			continue
		}
		if strings.HasPrefix(body, "\\") && len(lines) > 0 {
			lines[len(lines)-1].text += " " + strings.TrimSpace(body[1:])
			continue
		}
		lines = append(lines, rawLine{body, ln})
	}
	for _, rl := range lines {
		body := rl.text
		// strip trailing comment " // ..."
		if i := strings.Index(body, " // "); i >= 0 {
			body = strings.TrimSpace(body[:i])
		}
		kw, rest := body, ""
		if i := strings.IndexAny(body, " \t"); i >= 0 {
			kw, rest = body[:i], strings.TrimSpace(body[i+1:])
		}
		mk := func(text string) (Clause, error) { return parseClause(text, file, rl.line) }
		switch kw {
		case "func", "extern":
			if kw == "extern" {
				rest = strings.TrimSpace(strings.TrimPrefix(rest, "func"))
			}
			key := normalizeKey(rest, pkgPath)
			cur = &FuncContract{Key: key, PkgPath: pkgPath, Loops: map[int]*LoopSpec{}, File: file, Line: rl.line}
			if kw == "extern" {
				cur.Trusted = true
			}
			if _, dup := cs.Funcs[key]; dup {
				return fmt.Errorf("%s:%d: duplicate contract for %s", file, rl.line, key)
			}
			cs.Funcs[key] = cur
			curLemma, curWriters = nil, nil
			curDefers = nil
		case "props":
			ps := strings.FieldsFunc(rest, func(r rune) bool { return r == ',' || r == ' ' })
			switch {
			case curDefers != nil:
				curDefers.Props = ps
			case curLemma != nil:
				curLemma.Props = ps
			case curWriters != nil:
				curWriters.Props = ps
			case cur != nil:
				cur.Props = ps
			}
		case "requires", "ensures", "check":
			if cur == nil {
				return fmt.Errorf("%s:%d: %s outside func", file, rl.line, kw)
			}
			c, err := mk(rest)
			if err != nil {
				return err
			}
			if kw == "requires" {
				cur.Requires = append(cur.Requires, c)
			} else {
				c.Local = kw == "check"
				cur.Ensures = append(cur.Ensures, c)
			}
		case "trusted-ensures":
			if cur == nil {
				return fmt.Errorf("%s:%d: trusted-ensures outside func", file, rl.line)
			}
			c, err := mk(rest)
			if err != nil {
				return err
			}
			cur.TrustedEnsures = append(cur.TrustedEnsures, c)
		case "defines":
			if cur == nil {
				return fmt.Errorf("%s:%d: defines outside func", file, rl.line)
			}
			c, err := mk(rest)
			if err != nil {
				return err
			}
			cur.Defines = append(cur.Defines, c)
		case "invariant-assumed":
			if cur == nil {
				return fmt.Errorf("%s:%d: invariant-assumed outside func", file, rl.line)
			}
			c, err := mk(rest)
			if err != nil {
				return err
			}
			cur.InvAssumed = append(cur.InvAssumed, c)
		case "let":
			if cur == nil {
				return fmt.Errorf("%s:%d: let outside func", file, rl.line)
			}
			i := strings.Index(rest, "=")
			if i < 0 {
				return fmt.Errorf("%s:%d: let needs =", file, rl.line)
			}
			c, err := mk(rest[i+1:])
			if err != nil {
				return err
			}
			cur.Lets = append(cur.Lets, LetDef{Name: strings.TrimSpace(rest[:i]), C: c})
		case "assigns", "trusted-assigns":
			if cur == nil {
				return fmt.Errorf("%s:%d: assigns outside func", file, rl.line)
			}
			cur.HasAssigns = true
			if kw == "trusted-assigns" {
				// the frame is assumed by callers but not checked against the body (listed in evidence)
				cur.FrameTrusted = true
			}
			if rest == "nothing" {
				break
			}
			if rest == "everything" {
				cur.AssignsEverything = true
				break
			}
			for _, p := range splitTop(rest, ',') {
				c, err := mk(p)
				if err != nil {
					return err
				}
				cur.Assigns = append(cur.Assigns, c)
			}
		case "aborts":
			rest = strings.TrimSpace(strings.TrimPrefix(rest, "when"))
			c, err := mk(rest)
			if err != nil {
				return err
			}
			cur.Aborts = append(cur.Aborts, c)
		case "loop":
			// loop K invariant EXPR
			fs := strings.Fields(rest)
			if len(fs) < 3 || fs[1] != "invariant" {
				return fmt.Errorf("%s:%d: bad loop clause", file, rl.line)
			}
			k, err := strconv.Atoi(fs[0])
			if err != nil {
				return fmt.Errorf("%s:%d: bad loop index", file, rl.line)
			}
			idx := strings.Index(rest, "invariant")
			c, err := mk(rest[idx+len("invariant"):])
			if err != nil {
				return err
			}
			if cur.Loops[k] == nil {
				cur.Loops[k] = &LoopSpec{}
			}
			cur.Loops[k].Invariants = append(cur.Loops[k].Invariants, c)
		case "atcall":
			// atcall CALLEE assert EXPR | atcall CALLEE set G = EXPR
			fs := strings.Fields(rest)
			if len(fs) < 3 {
				return fmt.Errorf("%s:%d: bad atcall", file, rl.line)
			}
			callee, kind := fs[0], fs[1]
			tail := strings.TrimSpace(rest[strings.Index(rest, kind)+len(kind):])
			ac := AtCall{Callee: callee, Kind: kind}
			if kind == "set" {
				i := strings.Index(tail, "=")
				ac.Ghost = strings.TrimSpace(tail[:i])
				tail = tail[i+1:]
			}
			c, err := mk(tail)
			if err != nil {
				return err
			}
			ac.C = c
			cur.AtCalls = append(cur.AtCalls, ac)
		case "onwrite":
			// onwrite Type.field assert EXPR
			fs := strings.Fields(rest)
			if len(fs) < 3 || fs[1] != "assert" {
				return fmt.Errorf("%s:%d: onwrite Type.field assert EXPR", file, rl.line)
			}
			tf := strings.Split(fs[0], ".")
			if len(tf) != 2 {
				return fmt.Errorf("%s:%d: onwrite Type.field", file, rl.line)
			}
			c, err := mk(strings.TrimSpace(rest[strings.Index(rest, " assert ")+8:]))
			if err != nil {
				return err
			}
			cur.OnWrites = append(cur.OnWrites, OnWrite{Type: tf[0], Field: tf[1], C: c})
		case "pure":
			cur.Pure = true
			cur.HasAssigns = true
		case "trusted":
			cur.Trusted = true
		case "noreturn":
			cur.NoReturn = true
		case "noalloc":
			cur.NoAlloc = true
		case "nosafety":
			cur.NoSafety = true
		case "wraparound":
			cur.Wraparound = true
		case "orderonly":
			// examined for the order of its calls only: no implicit safety obligations, callee preconditions are not
			// checked and callee postconditions/frames are not relied upon (every call is treated as an unknown call)
			cur.NoSafety = true
			cur.OrderOnly = true
		case "inline":
			cur.Inline = true
		case "spec", "define", "pred":
			m := reSpecSig.FindStringSubmatch(rest)
			if m == nil {
				return fmt.Errorf("%s:%d: bad spec function %q", file, rl.line, rest)
			}
			sf := &SpecFunc{Name: m[1], Params: parseParams(m[2]), Result: strings.TrimSpace(m[3]), IsPred: kw == "pred", PkgPath: pkgPath}
			if sf.Result == "" {
				sf.Result = "Bool"
			}
			if m[5] != "" {
				c, err := mk(m[5])
				if err != nil {
					return err
				}
				sf.Body = &c
			}
			if _, dup := cs.Specs[sf.Name]; dup {
				return fmt.Errorf("%s:%d: duplicate spec %s", file, rl.line, sf.Name)
			}
			cs.Specs[sf.Name] = sf
			cur, curLemma, curWriters = nil, nil, nil
			curDefers = nil
		case "axiom", "lemma":
			i := strings.Index(rest, ":")
			if i < 0 {
				return fmt.Errorf("%s:%d: %s needs name:", file, rl.line, kw)
			}
			c, err := mk(rest[i+1:])
			if err != nil {
				return err
			}
			if kw == "axiom" {
				cs.Axioms = append(cs.Axioms, &Axiom{Name: strings.TrimSpace(rest[:i]), C: c, PkgPath: pkgPath})
				cur, curLemma, curWriters = nil, nil, nil
			curDefers = nil
			} else {
				curLemma = &Lemma{Name: strings.TrimSpace(rest[:i]), C: c, PkgPath: pkgPath}
				cs.Lemmas = append(cs.Lemmas, curLemma)
				cur, curWriters = nil, nil
				curDefers = nil
			}
		case "ghost":
			fs := strings.Fields(rest)
			if len(fs) != 2 {
				return fmt.Errorf("%s:%d: ghost NAME SORT", file, rl.line)
			}
			cs.Ghosts[fs[0]] = &GhostVar{Name: fs[0], Sort: fs[1]}
		case "pureprefix":
			cs.PurePrefixes = append(cs.PurePrefixes, strings.TrimSpace(rest))
			cur, curLemma, curWriters = nil, nil, nil
			curDefers = nil
		case "model":
			// model EXTERN = MODELFUNC
			i := strings.Index(rest, "=")
			if i < 0 {
				return fmt.Errorf("%s:%d: model EXTERN = FUNC", file, rl.line)
			}
			cs.Models[strings.TrimSpace(rest[:i])] = strings.TrimSpace(rest[i+1:])
			cur, curLemma, curWriters = nil, nil, nil
			curDefers = nil
		case "purepkg":
			cs.PurePkgs[strings.TrimSpace(rest)] = true
			cur, curLemma, curWriters = nil, nil, nil
			curDefers = nil
		case "defers":
			// defers FUNC: CALLEE
			i := strings.Index(rest, ":")
			if i < 0 {
				return fmt.Errorf("%s:%d: defers FUNC: CALLEE", file, rl.line)
			}
			d := &DefersSpec{Func: normalizeKey(strings.TrimSpace(rest[:i]), pkgPath), Callee: strings.TrimSpace(rest[i+1:]), PkgPath: pkgPath}
			cs.Defers = append(cs.Defers, d)
			cur, curLemma, curWriters = nil, nil, nil
			curDefers = d
		case "writers":
			// writers Type.field: f1, f2
			i := strings.Index(rest, ":")
			tf := strings.Split(strings.TrimSpace(rest[:i]), ".")
			w := &WritersSpec{Type: tf[0], Field: tf[1], PkgPath: pkgPath, Line: rl.line}
			for _, a := range strings.Split(rest[i+1:], ",") {
				w.Allowed = append(w.Allowed, strings.TrimSpace(a))
			}
			cs.Writers = append(cs.Writers, w)
			curWriters = w
			cur, curLemma = nil, nil
			curDefers = nil
		default:
			return fmt.Errorf("%s:%d: unknown contract keyword %q", file, rl.line, kw)
		}
	}
	return nil
}

// normalizeKey: "(*PartSet).AddPart" in pkg gemmill/types -> "(*gemmill/types.PartSet).AddPart"
func normalizeKey(name, pkgPath string) string {
	name = strings.TrimSpace(name)
	name = strings.ReplaceAll(name, modPrefix, "")
	if pkgPath == "" {
		return name
	}
	if strings.HasPrefix(name, "(") {
		i := strings.Index(name, ")")
		recv := name[1:i]
		star := ""
		if strings.HasPrefix(recv, "*") {
			star, recv = "*", recv[1:]
		}
		if !strings.Contains(recv, ".") {
			recv = pkgPath + "." + recv
		}
		return "(" + star + recv + ")" + name[i+1:]
	}
	if !strings.Contains(name, ".") || strings.HasPrefix(name, "init") {
		return pkgPath + "." + name
	}
	// Func$1 style has no dot before; "pkg.Func" given explicitly
	if strings.Contains(name, "/") || strings.Count(name, ".") >= 1 {
		// could be "Func.something"? treat first segment before '.' as package only if it contains '/' or is known std
		return name
	}
	return pkgPath + "." + name
}

// LoadAll loads the contract files of the repo (zz_verif_contracts.go) and /verif/contracts/*.spec
func LoadAllContracts(repo, verif string) (*Contracts, error) {
	cs := NewContracts()
	specs, _ := filepath.Glob(filepath.Join(verif, "contracts", "*.spec"))
	for _, s := range specs {
		if err := cs.LoadContractFile(s, ""); err != nil {
			return nil, err
		}
	}
	err := filepath.Walk(repo, func(p string, info os.FileInfo, err error) error {
		if err != nil {
			return nil
		}
		if info.IsDir() && (info.Name() == ".git" || info.Name() == "vendor") {
			return filepath.SkipDir
		}
		if !info.IsDir() && info.Name() == "zz_verif_contracts.go" {
			rel, _ := filepath.Rel(repo, filepath.Dir(p))
			if err := cs.LoadContractFile(p, filepath.ToSlash(rel)); err != nil {
				return err
			}
		}
		return nil
	})
	return cs, err
}
