package main

import (
	"fmt"
	"go/token"
	"go/types"
	"sort"
	"strings"

	"golang.org/x/tools/go/ssa"
)

type VKind int

const (
	KTerm VKind = iota
	KCell        // address of a local cell
	KField       // address of a leaf field: Heap[Base]
	KElem        // address of an element: Heap[Base][Idx]
	KArrPtr      // pointer to an array living at Heap[Base]
	KByteElem    // address of a byte inside an immutable Bytes value
	KTuple
	KClosure
	KFunc
	KGlobal
	KIter
	KUnit
	KCellPath // address of a (nested) field inside a struct-valued local cell
)

type Val struct {
	K    VKind
	T    string
	S    Sort
	Typ  types.Type
	Cell int
	Heap string
	Base string
	Idx  string
	Elems []Val
	Fn   *ssa.Function
	Bind []Val
	G    *ssa.Global
	Box  *Val // for interface values built by MakeInterface: the boxed value
	Path []int // KCellPath: field indices from the cell's struct value
	Root types.Type // KCellPath: struct type of the cell
}

func term(t string, s Sort, typ types.Type) Val { return Val{K: KTerm, T: t, S: s, Typ: typ} }

type ItemKind int

const (
	ItAssert ItemKind = iota
	ItOblig
)

type Item struct {
	Kind  ItemKind
	Text  string
	Ob    *Oblig
}

type Oblig struct {
	Name   string
	Class  string
	Pos    token.Position
	Goal   string
	Detail string
	Syntactic bool
}

type Deferred struct {
	Callee ssa.CallCommon
	Fn     Val
	Args   []Val
	Instr  *ssa.Defer
}

type Frame struct {
	fn      *ssa.Function
	regs    map[ssa.Value]Val
	blk     *ssa.BasicBlock
	idx     int
	prev    *ssa.BasicBlock
	retDest ssa.Value // value in caller frame to bind (nil: discard)
	isDefer bool
	defers  []Deferred
	inLoop  map[*ssa.BasicBlock]bool
	free    map[*ssa.FreeVar]Val
	fc      *FuncContract
	params  map[string]Val
	results []Val
	cellByName map[string]int
}

type Snapshot struct {
	heap    map[string]string
	cells   map[int]Val
	ghost   map[string]Val
	globals map[string]Val
	alive   string
	calls   map[string]string
}

type State struct {
	frames  []*Frame
	items   []Item
	decls   []string
	cells   map[int]Val
	heap    map[string]string
	heapNow map[string]string // allocation time bound of each heap array version
	ghost   map[string]Val
	globals map[string]Val
	alive   string
	calls   map[string]string // call counters (Int terms)
	entry   *Snapshot
	typed   map[string]bool
	fresh   []string // refs allocated on this path
	dry     *DryInfo
	notes   map[string]bool
	dead    bool
	steps   int
	infeasible bool
	cutEarly bool
	stackLocs [][2]string // (heap array, base ref) of objects in the activation record (ssa.Alloc with Heap == false): no callee can write them
	havocEpoch int
	havocExcept map[string]bool // heap arrays untouched by every whole-heap havoc so far
	d *Decls
	havocAll string // non-empty: the whole heap was havocked (by what)
}

type DryInfo struct {
	header  *ssa.BasicBlock
	frameDepth int
	loopBlocks map[*ssa.BasicBlock]bool
	mod     *ModSet
}

type ModSet struct {
	bases   map[string]map[string]bool // heap -> base refs stored to
	whole   map[string]bool            // heap arrays replaced wholesale
	heaps   map[string]bool
	cells   map[int]bool
	ghosts  map[string]bool
	globals map[string]bool
	calls   map[string]bool
	all     bool
	bytes   bool
}

func newModSet() *ModSet {
	return &ModSet{bases: map[string]map[string]bool{}, whole: map[string]bool{}, heaps: map[string]bool{}, cells: map[int]bool{}, ghosts: map[string]bool{}, globals: map[string]bool{}, calls: map[string]bool{}}
}

func copyMap[K comparable, V any](m map[K]V) map[K]V {
	n := make(map[K]V, len(m))
	for k, v := range m {
		n[k] = v
	}
	return n
}

func (f *Frame) clone() *Frame {
	g := *f
	g.regs = copyMap(f.regs)
	g.inLoop = copyMap(f.inLoop)
	g.defers = append([]Deferred(nil), f.defers...)
	g.cellByName = copyMap(f.cellByName)
	return &g
}

func (st *State) clone() *State {
	n := *st
	n.frames = make([]*Frame, len(st.frames))
	for i, f := range st.frames {
		n.frames[i] = f.clone()
	}
	n.items = append([]Item(nil), st.items...)
	n.decls = append([]string(nil), st.decls...)
	n.cells = copyMap(st.cells)
	n.heap = copyMap(st.heap)
	n.heapNow = copyMap(st.heapNow)
	n.havocExcept = copyMap(st.havocExcept)
	n.ghost = copyMap(st.ghost)
	n.globals = copyMap(st.globals)
	n.calls = copyMap(st.calls)
	n.typed = copyMap(st.typed)
	n.fresh = append([]string(nil), st.fresh...)
	n.stackLocs = append([][2]string(nil), st.stackLocs...)
	n.notes = st.notes // shared
	return &n
}

func (st *State) snapshot() *Snapshot {
	return &Snapshot{heap: copyMap(st.heap), cells: copyMap(st.cells), ghost: copyMap(st.ghost), globals: copyMap(st.globals), alive: st.alive, calls: copyMap(st.calls)}
}

func (st *State) top() *Frame { return st.frames[len(st.frames)-1] }

func (st *State) assume(t string) {
	if t == "true" || t == "" {
		return
	}
	st.items = append(st.items, Item{Kind: ItAssert, Text: t})
	// remember the assumed facts (conjunct-wise) so that a goal that is textually one of them is discharged syntactically
	if len(t) > 40 {
		for _, c := range splitAnd(t) {
			if len(c) > 40 {
				st.typed["fact:"+c] = true
			}
		}
	}
}

func (st *State) declare(name string, s Sort) {
	st.decls = append(st.decls, fmt.Sprintf("(declare-const %s %s)", name, s))
}

func (st *State) note(s string) {
	st.notes[s] = true
}

// heapGet returns the current term of heap array `name`.
func (st *State) heapGet(name string) string {
	if t, ok := st.heap[name]; ok {
		return t
	}
	if st.havocEpoch > 0 && st.d != nil && !st.havocExcept[name] {
		// first mention of this heap array after a whole-heap havoc: it may have been modified by that call
		nn := st.d.fresh(name)
		if srt, ok := st.d.constSort(name); ok {
			st.declare(nn, srt)
			st.heap[name] = nn
			st.heapNow[name] = st.alive
			return nn
		}
	}
	return name
}

func (st *State) heapBound(name string) string {
	if t, ok := st.heapNow[name]; ok {
		return t
	}
	return "now0"
}

// loadBound: a reference loaded from heap array `name` at base object `base` was allocated before the time the array
// version was created - provided the base object itself existed then. An object allocated later (by this function or by a
// callee, which may have initialised its fields without the array being versioned) can hold references as young as now.
func (st *State) loadBound(name, base string) string {
	hb := st.heapBound(name)
	if hb == st.alive || base == "" {
		return st.alive
	}
	return fmt.Sprintf("(ite (< (stamp %s) %s) %s %s)", base, hb, hb, st.alive)
}

func (st *State) markMod(name string) {
	if st.dry != nil {
		st.dry.mod.heaps[name] = true
	}
}

type byName []*Oblig

func (a byName) Len() int           { return len(a) }
func (a byName) Less(i, j int) bool { return a[i].Name < a[j].Name }
func (a byName) Swap(i, j int)      { a[i], a[j] = a[j], a[i] }

var _ = sort.Sort
var _ = strings.Join
