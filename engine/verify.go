package main

import (
	"crypto/sha256"
	"fmt"
	"go/types"
	"runtime/debug"
	"sort"
	"strings"

	"golang.org/x/tools/go/ssa"
)

type FuncResult struct {
	Key     string
	Fn      *ssa.Function
	FC      *FuncContract
	Paths   []*PathResult
	Err     string // unsupported / contract error
	Notes   []string
	Queries []*Query
}

// Query is one SMT question: facts (prefix of a path) => goal.
type Query struct {
	Ob       *Oblig
	Func     string
	PathID   int
	Prefix   []Item // assertions before the obligation
	Decls    []string
	Hash     string
	Status   string // unsat | sat | unknown | timeout | error
	Backend  string
	Time     float64
	Model    string
	ExpectSat bool
	ScriptFile string
	ItemIdx  int
	Path     *PathResult
}

func (e *Engine) newState(notes map[string]bool) *State {
	e.d.konst("now0", SInt)
	e.d.fun("stamp", []Sort{SRef}, SInt)
	return &State{cells: map[int]Val{}, heap: map[string]string{}, heapNow: map[string]string{}, ghost: map[string]Val{}, globals: map[string]Val{},
		calls: map[string]string{}, typed: map[string]bool{}, notes: notes, alive: "now0", d: e.d}
}

// VerifyFunc symbolically executes fn against its contract and returns the generated queries.
func (e *Engine) VerifyFunc(fc *FuncContract, fn *ssa.Function) (res *FuncResult) {
	res = &FuncResult{Key: fc.Key, Fn: fn, FC: fc}
	notes := map[string]bool{}
	defer func() {
		for n := range notes {
			res.Notes = append(res.Notes, n)
		}
		sort.Strings(res.Notes)
		if r := recover(); r != nil {
			switch x := r.(type) {
			case unsupportedErr:
				res.Err = x.Error()
			case contractErr:
				res.Err = x.Error()
			default:
				res.Err = fmt.Sprintf("engine panic: %v\n%s", r, debug.Stack())
			}
		}
	}()
	if fn.Blocks == nil {
		panic(unsupported("function has no body"))
	}
	e.curFn, e.curFC = fn, fc
	e.results = nil
	e.liveBlocks = orderOnlyLiveBlocks(fc, fn)
	st := e.newState(notes)
	fr := &Frame{fn: fn, regs: map[ssa.Value]Val{}, blk: fn.Blocks[0], inLoop: map[*ssa.BasicBlock]bool{},
		free: map[*ssa.FreeVar]Val{}, fc: fc, params: map[string]Val{}, cellByName: map[string]int{}}
	for _, p := range fn.Params {
		v := e.freshVal(st, "in_"+p.Name(), p.Type())
		fr.regs[p] = v
		fr.params[p.Name()] = v
	}
	for _, fv := range fn.FreeVars {
		// free variables of a closure verified on its own: pointers to captured cells
		t := fv.Type().(*types.Pointer).Elem()
		if isStruct(t) || isArray(t) {
			v := e.freshVal(st, "fv_"+fv.Name(), fv.Type())
			st.assume(not(eq(v.T, "rnil")))
			fr.free[fv] = v
			fr.params[fv.Name()] = v
			continue
		}
		id := e.d.nfresh + 1
		e.d.nfresh++
		st.cells[id] = e.freshVal(st, "fv_"+fv.Name(), t)
		fr.free[fv] = Val{K: KCell, Cell: id, Typ: fv.Type()}
		fr.cellByName[fv.Name()] = id
	}
	st.frames = []*Frame{fr}
	st.entry = st.snapshot()
	env := e.envFor(st, fr, st.entry)
	for _, c := range fc.Requires {
		st.assume(e.evalBool(env, c))
	}
	for _, c := range fc.Defines {
		st.assume(e.evalBool(env, c))
	}
	for _, c := range fc.InvAssumed {
		st.assume(e.evalBool(env, c))
	}
	// vacuity guard: the precondition must be satisfiable
	st.items = append(st.items, Item{Kind: ItOblig, Ob: &Oblig{Name: shortFn(fn) + "/requires-sat", Class: "requires-sat", Goal: "false", Pos: e.fset.Position(fn.Pos())}})
	st.entry = st.snapshot()
	e.run(st)
	res.Paths = e.results
	res.Queries = e.queriesOf(res)
	return res
}

// queriesOf flattens paths into de-duplicated queries.
func (e *Engine) queriesOf(res *FuncResult) []*Query {
	seen := map[string]*Query{}
	var out []*Query
	counts := map[string]int{}
	for _, p := range res.Paths {
		h := sha256.New()
		for i, it := range p.items {
			if it.Kind == ItAssert {
				h.Write([]byte(it.Text))
				h.Write([]byte{0})
				continue
			}
			key := fmt.Sprintf("%x|%s|%s", h.Sum(nil), it.Ob.Name, it.Ob.Goal)
			if _, dup := seen[key]; dup {
				continue
			}
			q := &Query{Ob: it.Ob, Func: res.Key, PathID: p.id, Decls: p.decls, Hash: key, ItemIdx: i, Path: p}
			q.ExpectSat = it.Ob.Class == "canary" || it.Ob.Class == "requires-sat"
			seen[key] = q
			out = append(out, q)
			counts[it.Ob.Name]++
		}
	}
	return out
}

// VerifyLemma: a pure obligation.
func (e *Engine) VerifyLemma(l *Lemma) (res *FuncResult) {
	res = &FuncResult{Key: "lemma:" + l.Name}
	notes := map[string]bool{}
	defer func() {
		if r := recover(); r != nil {
			res.Err = fmt.Sprintf("%v", r)
		}
	}()
	st := e.newState(notes)
	st.entry = st.snapshot()
	var pkg *types.Package
	if sp, ok := e.pkgByPath[l.PkgPath]; ok {
		pkg = sp.Pkg
	}
	env := &Env{e: e, st: st, old: st.entry, vars: map[string]Val{}, pkg: pkg}
	goal := e.evalBool(env, l.C)
	ob := &Oblig{Name: "lemma:" + l.Name, Class: "lemma", Goal: goal, Detail: l.C.Text}
	res.Queries = []*Query{{Ob: ob, Func: res.Key, Decls: st.decls, Hash: "lemma:" + l.Name}}
	return res
}

// CheckWriters: structural obligation — only the listed functions store to Type.Field.
func (e *Engine) CheckWriters(w *WritersSpec) *Query {
	sp := e.pkgByPath[w.PkgPath]
	ob := &Oblig{Name: fmt.Sprintf("writers:%s.%s", w.Type, w.Field), Class: "writers"}
	q := &Query{Ob: ob, Func: "writers", Backend: "structural", Hash: ob.Name}
	if sp == nil {
		q.Status = "error"
		q.Model = "package not loaded: " + w.PkgPath
		return q
	}
	allowed := map[string]bool{}
	for _, a := range w.Allowed {
		allowed[a] = true
	}
	var bad []string
	var all []string
	visit := func(fn *ssa.Function) {
		name := shortFn(fn)
		writes := false
		for _, b := range fn.Blocks {
			for _, in := range b.Instrs {
				s, ok := in.(*ssa.Store)
				if !ok {
					continue
				}
				switch a := s.Addr.(type) {
				case *ssa.FieldAddr:
					stt := a.X.Type().Underlying().(*types.Pointer).Elem()
					if n, ok := types.Unalias(stt).(*types.Named); ok && n.Obj().Name() == w.Type {
						f := stt.Underlying().(*types.Struct).Field(a.Field)
						if f.Name() == w.Field {
							writes = true
						}
					}
				default:
					// whole-struct store through a pointer to Type
					if pt, ok := s.Addr.Type().Underlying().(*types.Pointer); ok {
						if n, ok := types.Unalias(pt.Elem()).(*types.Named); ok && n.Obj().Name() == w.Type && isStruct(pt.Elem()) {
							if _, isAlloc := s.Addr.(*ssa.Alloc); !isAlloc {
								writes = true
							}
						}
					}
				}
			}
		}
		if writes {
			all = append(all, name)
			// closures count for their parent
			base := name
			if i := strings.Index(base, "$"); i >= 0 {
				base = base[:i]
			}
			short := base
			if i := strings.LastIndex(short, "."); i >= 0 {
				short = short[i+1:]
			}
			if !allowed[base] && !allowed[short] && !allowed[name] {
				bad = append(bad, name)
			}
		}
	}
	var walk func(fn *ssa.Function)
	walk = func(fn *ssa.Function) {
		visit(fn)
		for _, an := range fn.AnonFuncs {
			walk(an)
		}
	}
	for _, m := range sp.Members {
		switch m := m.(type) {
		case *ssa.Function:
			walk(m)
		case *ssa.Type:
			for _, t := range []types.Type{m.Type(), types.NewPointer(m.Type())} {
				ms := e.prog.MethodSets.MethodSet(t)
				for i := 0; i < ms.Len(); i++ {
					if fn := e.prog.MethodValue(ms.At(i)); fn != nil && fn.Pkg == sp && fn.Synthetic == "" {
						walk(fn)
					}
				}
			}
		}
	}
	sort.Strings(all)
	sort.Strings(bad)
	ob.Detail = "writers found: " + strings.Join(dedup(all), ", ")
	if len(bad) == 0 {
		q.Status = "unsat"
	} else {
		q.Status = "sat"
		q.Model = "unverified writer(s) of " + w.Type + "." + w.Field + ": " + strings.Join(dedup(bad), ", ")
	}
	return q
}

func dedup(xs []string) []string {
	var out []string
	for i, x := range xs {
		if i == 0 || xs[i-1] != x {
			out = append(out, x)
		}
	}
	return out
}

// CheckDefers: structural obligation — fn defers a call to callee in its entry block.
func (e *Engine) CheckDefers(d *DefersSpec) *Query {
	ob := &Oblig{Name: fmt.Sprintf("defers:%s:%s", d.Func, d.Callee), Class: "defers"}
	q := &Query{Ob: ob, Func: "structural", Backend: "structural", Hash: ob.Name}
	fn := e.fnByKey[d.Func]
	if fn == nil || len(fn.Blocks) == 0 {
		q.Status = "sat"
		q.Model = "function " + d.Func + " not found"
		return q
	}
	for _, in := range fn.Blocks[0].Instrs {
		if df, ok := in.(*ssa.Defer); ok {
			name := ""
			if sc := df.Call.StaticCallee(); sc != nil {
				name = sc.Name()
			} else if df.Call.IsInvoke() {
				name = df.Call.Method.Name()
			}
			if name == d.Callee {
				q.Status = "unsat"
				ob.Detail = "defer " + name + " found in the entry block of " + d.Func
				return q
			}
		}
	}
	q.Status = "sat"
	q.Model = d.Func + " no longer defers " + d.Callee + " in its entry block"
	return q
}

// orderOnlyLiveBlocks: for a function whose contract consists of call-site rules only (nosafety, no ensures, no frame,
// no onwrite, no loops with invariants, no closures or defers) a path can raise no further obligation once no call named in
// an `atcall` clause is reachable any more. Returns the set of blocks from which such a call is reachable, or nil when the
// optimisation does not apply. Paths that leave the set are ended (their obligations so far are kept).
func orderOnlyLiveBlocks(fc *FuncContract, fn *ssa.Function) map[*ssa.BasicBlock]bool {
	if fc == nil || !fc.NoSafety || len(fc.Ensures) > 0 || (fc.HasAssigns && !fc.FrameTrusted) || len(fc.OnWrites) > 0 || len(fc.Loops) > 0 || len(fc.AtCalls) == 0 {
		return nil
	}
	names := map[string]bool{}
	for _, ac := range fc.AtCalls {
		n := ac.Callee
		if i := strings.LastIndex(n, "."); i >= 0 {
			n = n[i+1:]
		}
		names[n] = true
	}
	live := map[*ssa.BasicBlock]bool{}
	for _, b := range fn.Blocks {
		for _, in := range b.Instrs {
			switch x := in.(type) {
			case *ssa.MakeClosure, *ssa.Defer, *ssa.Go:
				return nil
			case *ssa.Call:
				c := x.Common()
				var n string
				if c.IsInvoke() {
					n = c.Method.Name()
				} else if f, ok := c.Value.(*ssa.Function); ok {
					n = f.Name()
				} else if _, ok := c.Value.(*ssa.Builtin); ok {
					continue
				} else {
					// call through a function value: its name is only known at run time of the engine
					live[b] = true
					continue
				}
				if names[n] {
					live[b] = true
				}
			}
		}
	}
	for changed := true; changed; {
		changed = false
		for _, b := range fn.Blocks {
			if live[b] {
				continue
			}
			for _, s := range b.Succs {
				if live[s] {
					live[b] = true
					changed = true
					break
				}
			}
		}
	}
	return live
}
