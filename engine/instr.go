package main

import (
	"fmt"
	"go/token"
	"go/types"
	"strings"

	"golang.org/x/tools/go/ssa"
)

// run explores all paths from the initial state; finished paths are appended to e.results.
func (e *Engine) run(init *State) {
	work := []*State{init}
	npaths := 0
	for len(work) > 0 {
		st := work[len(work)-1]
		work = work[:len(work)-1]
		for !st.dead {
			succ := e.step(st)
			if len(succ) > 0 {
				work = append(work, succ...)
			}
			st.steps++
			if st.steps > e.maxSteps {
				panic(unsupported("step budget exceeded"))
			}
		}
		// A path cut off as infeasible still carries the obligations raised before the cut: the contradiction may
		// stem from a failed obligation (its goal is assumed once it has been asserted), so they must be decided.
		if st.dry == nil && (!st.infeasible || hasOblig(st.items)) {
			npaths++
			if npaths > e.maxPaths {
				panic(unsupported(fmt.Sprintf("path budget exceeded (%d)", e.maxPaths)))
			}
			e.results = append(e.results, &PathResult{items: st.items, decls: st.decls, id: npaths})
		}
	}
}

// runDry explores from st (a clone) in dry mode until the loop header is reached again or the loop is left.
func (e *Engine) runDry(init *State) {
	work := []*State{init}
	n := 0
	for len(work) > 0 {
		st := work[len(work)-1]
		work = work[:len(work)-1]
		for !st.dead {
			succ := e.step(st)
			work = append(work, succ...)
			st.steps++
			if st.steps > e.maxSteps {
				panic(unsupported("step budget exceeded (dry run)"))
			}
		}
		n++
		if n > e.maxPaths {
			panic(unsupported("path budget exceeded in loop dry run"))
		}
	}
}

// step executes one instruction of the top frame; returns forked states (the receiver continues as one branch).
func (e *Engine) step(st *State) []*State {
	fr := st.top()
	if fr.idx == 0 {
		if forks, stop := e.enterBlock(st); stop {
			return forks
		}
	}
	instr := fr.blk.Instrs[fr.idx]
	fr.idx++
	switch in := instr.(type) {
	case *ssa.Alloc:
		e.doAlloc(st, in)
	case *ssa.Store:
		a := e.val(st, in.Addr)
		v := e.val(st, in.Val)
		e.nilCheckAddr(st, a, in)
		if v.K == KTuple {
			panic(unsupported("store of tuple"))
		}
		e.store(st, a, v)
	case *ssa.UnOp:
		e.doUnOp(st, in)
	case *ssa.BinOp:
		e.setReg(st, in, e.binop(st, in, in.Op, e.val(st, in.X), e.val(st, in.Y), in.Type()))
	case *ssa.FieldAddr:
		e.doFieldAddr(st, in)
	case *ssa.Field:
		x := e.val(st, in.X)
		si := e.d.StructOf(in.X.Type())
		ft := si.T.Field(in.Field).Type()
		e.setReg(st, in, term(app(si.Fields[in.Field], x.T), e.d.SortOf(ft), ft))
	case *ssa.IndexAddr:
		e.doIndexAddr(st, in)
	case *ssa.Index:
		e.doIndex(st, in)
	case *ssa.Lookup:
		e.doLookup(st, in)
	case *ssa.MapUpdate:
		e.doMapUpdate(st, in)
	case *ssa.MakeMap:
		r := e.allocRef(st, "map")
		mt := in.Type().Underlying().(*types.Map)
		dom, _, ln := e.d.MapHeaps(e.mapKeySort(mt), e.d.SortOf(mt.Elem()))
		ks := e.mapKeySort(mt)
		e.heapStore(st, dom, r, fmt.Sprintf("((as const (Array %s Bool)) false)", ks))
		e.heapStore(st, ln, r, "0")
		e.setReg(st, in, term(r, SRef, in.Type()))
	case *ssa.MakeChan:
		r := e.allocRef(st, "chan")
		e.setReg(st, in, term(r, SRef, in.Type()))
	case *ssa.MakeSlice:
		e.doMakeSlice(st, in)
	case *ssa.MakeInterface:
		e.setReg(st, in, e.makeIface(st, e.val(st, in.X), in.X.Type(), in.Type()))
	case *ssa.MakeClosure:
		var binds []Val
		for _, b := range in.Bindings {
			binds = append(binds, e.val(st, b))
		}
		e.setReg(st, in, Val{K: KClosure, Fn: in.Fn.(*ssa.Function), Bind: binds, Typ: in.Type()})
	case *ssa.Slice:
		e.doSlice(st, in)
	case *ssa.Convert:
		e.setReg(st, in, e.convert(st, e.val(st, in.X), in.X.Type(), in.Type()))
	case *ssa.ChangeType:
		x := e.val(st, in.X)
		x.Typ = in.Type()
		e.setReg(st, in, x)
	case *ssa.ChangeInterface:
		x := e.val(st, in.X)
		x.Typ = in.Type()
		e.setReg(st, in, x)
	case *ssa.SliceToArrayPointer, *ssa.MultiConvert:
		panic(unsupported(fmt.Sprintf("%T", in)))
	case *ssa.TypeAssert:
		e.doTypeAssert(st, in)
	case *ssa.Extract:
		t := e.val(st, in.Tuple)
		if t.K != KTuple {
			panic(unsupported("extract from non-tuple"))
		}
		e.setReg(st, in, t.Elems[in.Index])
	case *ssa.Phi:
		for i, p := range fr.blk.Preds {
			if p == fr.prev {
				e.setReg(st, in, e.val(st, in.Edges[i]))
				return nil
			}
		}
		panic(unsupported("phi without matching predecessor"))
	case *ssa.Range:
		e.setReg(st, in, Val{K: KIter, Elems: []Val{e.val(st, in.X)}, Typ: in.X.Type()})
	case *ssa.Next:
		e.doNext(st, in)
	case *ssa.Select:
		e.doSelect(st, in)
	case *ssa.Send:
		// no-op (blocking is not a panic); sending on nil blocks forever
	case *ssa.Go:
		st.note("go statement dropped: spawned goroutine body is not verified as part of the caller (" + fnKey(fr.fn) + ")")
		// the spawn itself is counted, so that contracts can say how many goroutines of a kind are started
		if gname := calleeName(&in.Call, e.val(st, in.Call.Value)); gname != "" {
			cur, ok := st.calls[gname]
			if !ok {
				cur = "0"
			}
			st.calls[gname] = simplifyAdd1(cur)
			if st.dry != nil {
				st.dry.mod.calls[gname] = true
			}
		}
	case *ssa.Defer:
		d := Deferred{Callee: in.Call, Instr: in}
		if !in.Call.IsInvoke() {
			d.Fn = e.val(st, in.Call.Value)
		} else {
			d.Fn = e.val(st, in.Call.Value)
		}
		for _, a := range in.Call.Args {
			d.Args = append(d.Args, e.val(st, a))
		}
		fr.defers = append(fr.defers, d)
	case *ssa.RunDefers:
		if len(fr.defers) > 0 {
			d := fr.defers[len(fr.defers)-1]
			fr.defers = fr.defers[:len(fr.defers)-1]
			fr.idx-- // come back here for the next deferred call
			return e.doCall(st, &d.Callee, d.Fn, d.Args, nil, d.Instr, true)
		}
	case *ssa.Call:
		var fnv Val
		fnv = e.val(st, in.Call.Value)
		var args []Val
		for _, a := range in.Call.Args {
			args = append(args, e.val(st, a))
		}
		return e.doCall(st, &in.Call, fnv, args, in, in, false)
	case *ssa.DebugRef:
	case *ssa.If:
		return e.doIf(st, in)
	case *ssa.Jump:
		e.gotoBlock(st, fr.blk.Succs[0])
	case *ssa.Return:
		return e.doReturn(st, in)
	case *ssa.Panic:
		e.doPanic(st, in, "panic")
	default:
		panic(unsupported(fmt.Sprintf("instruction %T", in)))
	}
	return nil
}

func (e *Engine) gotoBlock(st *State, b *ssa.BasicBlock) {
	fr := st.top()
	fr.prev = fr.blk
	fr.blk = b
	fr.idx = 0
	if e.liveBlocks != nil && st.dry == nil && len(st.frames) == 1 && fr.fn == e.curFn && !e.liveBlocks[b] {
		// nothing the contract speaks about can happen on this path any more
		// (vacuity canary, as at a return: the assumptions on this path must be consistent)
		e.oblige(st, "canary", b.Instrs[0].Pos(), "cut", "false")
		st.dead = true
		st.cutEarly = true
	}
}

func (e *Engine) doIf(st *State, in *ssa.If) []*State {
	fr := st.top()
	c := e.val(st, in.Cond)
	tb, fb := fr.blk.Succs[0], fr.blk.Succs[1]
	if c.T == "true" {
		e.gotoBlock(st, tb)
		return nil
	}
	if c.T == "false" {
		e.gotoBlock(st, fb)
		return nil
	}
	if st.dry == nil && e.prune != nil {
		tOK, fOK := e.prune(st, c.T)
		switch {
		case tOK && !fOK:
			st.assume(c.T)
			e.gotoBlock(st, tb)
			return nil
		case !tOK && fOK:
			st.assume(not(c.T))
			e.gotoBlock(st, fb)
			return nil
		case !tOK && !fOK:
			// the path itself is infeasible
			st.dead = true
			st.infeasible = true
			return nil
		}
	}
	other := st.clone()
	st.assume(c.T)
	e.gotoBlock(st, tb)
	other.assume(not(c.T))
	e.gotoBlock(other, fb)
	return []*State{other}
}

func (e *Engine) doAlloc(st *State, in *ssa.Alloc) {
	t := in.Type().(*types.Pointer).Elem()
	if isStruct(t) && e.localStructOK(in) {
		// a struct-valued local whose address never escapes: kept as a cell holding a datatype value
		id := e.d.nfresh + 1
		e.d.nfresh++
		s := e.d.SortOf(t)
		st.cells[id] = term(e.d.Zero(s, t), s, t)
		if st.dry != nil {
			st.dry.mod.cells[id] = true
		}
		e.setReg(st, in, Val{K: KCell, Cell: id, Typ: in.Type()})
		if in.Comment != "" {
			st.top().cellByName[in.Comment] = id
		}
		return
	}
	if isStruct(t) || isArray(t) {
		v := e.allocObject(st, t, "obj_"+in.Comment)
		if !in.Heap && len(st.frames) == 1 {
			// a variable of the function's own activation record (go/ssa: its address is never taken explicitly nor
			// captured): callees cannot reach it, so their frames must not havoc it
			e.recordStackLocs(st, v.T, t)
		}
		e.setReg(st, in, v)
		if in.Comment != "" {
			st.top().cellByName["&"+in.Comment] = -1
			st.top().regs[in] = v
			st.top().params["&"+in.Comment] = v
		}
		return
	}
	id := e.d.nfresh + 1
	e.d.nfresh++
	s := e.d.SortOf(t)
	st.cells[id] = term(e.d.Zero(s, t), s, t)
	if st.dry != nil {
		st.dry.mod.cells[id] = true
	}
	e.setReg(st, in, Val{K: KCell, Cell: id, Typ: in.Type()})
	if in.Comment != "" {
		st.top().cellByName[in.Comment] = id
	}
}

func (e *Engine) nilCheckAddr(st *State, a Val, instr ssa.Instruction) {
	switch a.K {
	case KTerm:
		e.safety(st, "nil", instr, not(eq(a.T, "rnil")))
	}
}

func (e *Engine) doUnOp(st *State, in *ssa.UnOp) {
	x := e.val(st, in.X)
	switch in.Op {
	case token.MUL:
		e.nilCheckAddr(st, x, in)
		e.setReg(st, in, e.load(st, x, in.Pos()))
	case token.NOT:
		e.setReg(st, in, term(not(x.T), SBool, in.Type()))
	case token.SUB:
		if x.S == SFloat {
			e.setReg(st, in, e.freshVal(st, "fneg", in.Type()))
			return
		}
		r := "(- " + x.T + ")"
		if m, ok := uintMod(in.Type()); ok {
			r = fmt.Sprintf("(mod %s %s)", r, m)
		}
		e.setReg(st, in, term(r, SInt, in.Type()))
	case token.XOR:
		// ^x = -x-1 for signed; for unsigned max-x
		if mx, ok := uintMax(in.Type()); ok {
			e.setReg(st, in, term(fmt.Sprintf("(- %s %s)", mx, x.T), SInt, in.Type()))
		} else {
			e.setReg(st, in, term(fmt.Sprintf("(- (- %s) 1)", x.T), SInt, in.Type()))
		}
	case token.ARROW:
		// receive: fresh value
		if in.CommaOk {
			v := e.freshVal(st, "recv", in.Type().(*types.Tuple).At(0).Type())
			ok := e.freshVal(st, "recvok", types.Typ[types.Bool])
			e.setReg(st, in, Val{K: KTuple, Elems: []Val{v, ok}})
		} else {
			e.setReg(st, in, e.freshVal(st, "recv", in.Type()))
		}
	default:
		panic(unsupported("unop " + in.Op.String()))
	}
}

func isUnsigned(t types.Type) bool {
	b, ok := t.Underlying().(*types.Basic)
	return ok && b.Info()&types.IsUnsigned != 0
}

// sintRange: 2^(n-1) and 2^n for a signed integer type of n bits
func sintRange(t types.Type) (string, string, bool) {
	b, ok := t.Underlying().(*types.Basic)
	if !ok || b.Info()&types.IsInteger == 0 || b.Info()&types.IsUnsigned != 0 {
		return "", "", false
	}
	switch b.Kind() {
	case types.Int, types.Int64:
		return "9223372036854775808", "18446744073709551616", true
	case types.Int32:
		return "2147483648", "4294967296", true
	case types.Int16:
		return "32768", "65536", true
	case types.Int8:
		return "128", "256", true
	}
	return "", "", false
}

func isString(t types.Type) bool {
	b, ok := t.Underlying().(*types.Basic)
	return ok && b.Info()&types.IsString != 0
}

func (e *Engine) binop(st *State, instr ssa.Instruction, op token.Token, x, y Val, rt types.Type) Val {
	xt := x.Typ
	if x.K != KTerm || y.K != KTerm {
		// comparisons of function values / addresses with nil
		if op == token.EQL || op == token.NEQ {
			xn := x.K == KTerm && (x.T == "rnil")
			yn := y.K == KTerm && (y.T == "rnil")
			if (xn && y.K != KTerm) || (yn && x.K != KTerm) {
				if op == token.EQL {
					return term("false", SBool, rt)
				}
				return term("true", SBool, rt)
			}
		}
		panic(unsupported("binop on non-term values"))
	}
	wrap := func(t string) Val {
		if m, ok := uintMod(rt); ok {
			return term(fmt.Sprintf("(mod %s %s)", t, m), SInt, rt)
		}
		// functions marked `wraparound`: signed machine arithmetic is two's-complement, not mathematical
		if fc := st.top().fc; fc != nil && fc.Wraparound {
			if half, full, ok := sintRange(rt); ok {
				return term(fmt.Sprintf("(- (mod (+ %s %s) %s) %s)", t, half, full, half), SInt, rt)
			}
		}
		return term(t, SInt, rt)
	}
	if x.S == SFloat || y.S == SFloat {
		switch op {
		case token.EQL:
			return term(eq(x.T, y.T), SBool, rt)
		case token.NEQ:
			return term(not(eq(x.T, y.T)), SBool, rt)
		case token.LSS, token.LEQ, token.GTR, token.GEQ:
			return e.freshVal(st, "fcmp", rt)
		}
		return e.freshVal(st, "fop", rt)
	}
	switch op {
	case token.ADD:
		if x.S == SBytes {
			return term(e.mkBconcat(st, x.T, y.T), SBytes, rt)
		}
		return wrap(fmt.Sprintf("(+ %s %s)", x.T, y.T))
	case token.SUB:
		return wrap(fmt.Sprintf("(- %s %s)", x.T, y.T))
	case token.MUL:
		return wrap(fmt.Sprintf("(* %s %s)", x.T, y.T))
	case token.QUO:
		e.safety(st, "div", instr, not(eq(y.T, "0")))
		if isUnsigned(rt) {
			return term(fmt.Sprintf("(div %s %s)", x.T, y.T), SInt, rt)
		}
		return term(fmt.Sprintf("(godiv %s %s)", x.T, y.T), SInt, rt)
	case token.REM:
		e.safety(st, "div", instr, not(eq(y.T, "0")))
		if isUnsigned(rt) {
			return term(fmt.Sprintf("(mod %s %s)", x.T, y.T), SInt, rt)
		}
		return term(fmt.Sprintf("(gomod %s %s)", x.T, y.T), SInt, rt)
	case token.EQL, token.NEQ:
		var t string
		switch {
		case x.S == SBytes && isString(xt):
			t = app("beq", x.T, y.T)
		case x.S == SBytes:
			// []byte compared with nil
			if y.T == "bnil" {
				t = app("bnilp", x.T)
			} else if x.T == "bnil" {
				t = app("bnilp", y.T)
			} else {
				t = eq(x.T, y.T)
			}
		case x.S == SSlice:
			if y.T == "snil" {
				t = eq(app("sarr", x.T), "rnil")
			} else if x.T == "snil" {
				t = eq(app("sarr", y.T), "rnil")
			} else {
				t = eq(x.T, y.T)
			}
		default:
			t = eq(x.T, y.T)
		}
		if op == token.NEQ {
			t = not(t)
		}
		return term(t, SBool, rt)
	case token.LSS, token.LEQ, token.GTR, token.GEQ:
		if x.S == SBytes {
			e.d.fun("bless", []Sort{SBytes, SBytes}, SBool)
			var t string
			switch op {
			case token.LSS:
				t = app("bless", x.T, y.T)
			case token.GTR:
				t = app("bless", y.T, x.T)
			case token.LEQ:
				t = not(app("bless", y.T, x.T))
			default:
				t = not(app("bless", x.T, y.T))
			}
			return term(t, SBool, rt)
		}
		sym := map[token.Token]string{token.LSS: "<", token.LEQ: "<=", token.GTR: ">", token.GEQ: ">="}[op]
		return term(fmt.Sprintf("(%s %s %s)", sym, x.T, y.T), SBool, rt)
	case token.AND, token.OR, token.XOR, token.SHL, token.SHR, token.AND_NOT:
		return e.bitop(st, op, x, y, rt)
	case token.LAND:
		return term(and(x.T, y.T), SBool, rt)
	case token.LOR:
		return term(or(x.T, y.T), SBool, rt)
	}
	panic(unsupported("binop " + op.String()))
}

// bitop: bit operations in integer mode. Shifts by constants and masks with 2^k-1 are exact; the rest
// are uninterpreted functions with range axioms.
func (e *Engine) bitop(st *State, op token.Token, x, y Val, rt types.Type) Val {
	if x.S == SBool {
		switch op {
		case token.AND:
			return term(and(x.T, y.T), SBool, rt)
		case token.OR:
			return term(or(x.T, y.T), SBool, rt)
		case token.XOR:
			return term(not(eq(x.T, y.T)), SBool, rt)
		}
	}
	pow2 := func(s string) (string, bool) {
		var n uint
		if _, err := fmt.Sscanf(s, "%d", &n); err != nil || n > 200 || strings.ContainsAny(s, "( -") {
			return "", false
		}
		v := "1"
		// big power as string via repeated doubling
		r := []byte{1}
		for i := uint(0); i < n; i++ {
			carry := 0
			for j := 0; j < len(r); j++ {
				d := int(r[j])*2 + carry
				r[j] = byte(d % 10)
				carry = d / 10
			}
			if carry > 0 {
				r = append(r, byte(carry))
			}
		}
		var sb strings.Builder
		for j := len(r) - 1; j >= 0; j-- {
			sb.WriteByte('0' + r[j])
		}
		v = sb.String()
		return v, true
	}
	wrap := func(t string) Val {
		if m, ok := uintMod(rt); ok {
			return term(fmt.Sprintf("(mod %s %s)", t, m), SInt, rt)
		}
		// functions marked `wraparound`: signed machine arithmetic is two's-complement, not mathematical
		if fc := st.top().fc; fc != nil && fc.Wraparound {
			if half, full, ok := sintRange(rt); ok {
				return term(fmt.Sprintf("(- (mod (+ %s %s) %s) %s)", t, half, full, half), SInt, rt)
			}
		}
		return term(t, SInt, rt)
	}
	switch op {
	case token.SHL:
		if p, ok := pow2(y.T); ok {
			return wrap(fmt.Sprintf("(* %s %s)", x.T, p))
		}
		e.d.fun("pow2", []Sort{SInt}, SInt)
		e.d.axiomKeyed("(forall ((k Int)) (! (> (pow2 k) 0) :pattern ((pow2 k))))", "pow2")
		e.d.axiomKeyed("(= (pow2 0) 1)", "pow2")
		return wrap(fmt.Sprintf("(* %s (pow2 %s))", x.T, y.T))
	case token.SHR:
		if p, ok := pow2(y.T); ok {
			return term(fmt.Sprintf("(div %s %s)", x.T, p), SInt, rt)
		}
		e.d.fun("pow2", []Sort{SInt}, SInt)
		e.d.axiomKeyed("(forall ((k Int)) (! (> (pow2 k) 0) :pattern ((pow2 k))))", "pow2")
		e.d.axiomKeyed("(= (pow2 0) 1)", "pow2")
		return term(fmt.Sprintf("(div %s (pow2 %s))", x.T, y.T), SInt, rt)
	case token.AND:
		// x & (2^k - 1) = x mod 2^k for non-negative x
		for _, pr := range [][2]Val{{x, y}, {y, x}} {
			var n uint64
			if _, err := fmt.Sscanf(pr[1].T, "%d", &n); err == nil && !strings.ContainsAny(pr[1].T, "( -") && n&(n+1) == 0 && isUnsigned(rt) {
				return term(fmt.Sprintf("(mod %s %d)", pr[0].T, n+1), SInt, rt)
			}
		}
	}
	if op == token.XOR && isUnsigned(rt) {
		// x ^ 1 flips the lowest bit (exact)
		for _, pr := range [][2]Val{{x, y}, {y, x}} {
			if pr[1].T == "1" {
				return term(fmt.Sprintf("(ite (= (mod %s 2) 0) (+ %s 1) (- %s 1))", pr[0].T, pr[0].T, pr[0].T), SInt, rt)
			}
		}
	}
	name := map[token.Token]string{token.AND: "ubvand", token.OR: "ubvor", token.XOR: "ubvxor", token.AND_NOT: "ubvandnot", token.SHL: "ubvshl", token.SHR: "ubvshr"}[op]
	e.d.fun(name, []Sort{SInt, SInt}, SInt)
	if op == token.AND {
		e.d.axiomKeyed("(forall ((a Int) (b Int)) (! (=> (and (>= a 0) (>= b 0)) (and (<= 0 (ubvand a b)) (<= (ubvand a b) a) (<= (ubvand a b) b))) :pattern ((ubvand a b))))", "ubvand")
	}
	v := term(app(name, x.T, y.T), SInt, rt)
	if mx, ok := uintMax(rt); ok {
		st.assume(fmt.Sprintf("(and (<= 0 %s) (<= %s %s))", v.T, v.T, mx))
	}
	st.note("bit operation " + op.String() + " modelled as uninterpreted function")
	return v
}

func (e *Engine) doFieldAddr(st *State, in *ssa.FieldAddr) {
	x := e.val(st, in.X)
	pt := in.X.Type().Underlying().(*types.Pointer)
	stt := pt.Elem()
	if x.K == KCell || x.K == KCellPath {
		root := x.Root
		if x.K == KCell {
			root = stt
		}
		path := append(append([]int{}, x.Path...), in.Field)
		e.setReg(st, in, Val{K: KCellPath, Cell: x.Cell, Path: path, Root: root, Typ: in.Type()})
		return
	}
	if x.K != KTerm {
		panic(unsupported("fieldaddr on non-term base"))
	}
	e.safety(st, "nil", in, not(eq(x.T, "rnil")))
	e.setReg(st, in, e.fieldAddr(st, x.T, stt, in.Field, in.Type()))
}

func (e *Engine) fieldAddr(st *State, base string, stt types.Type, field int, ptrType types.Type) Val {
	s := stt.Underlying().(*types.Struct)
	ft := s.Field(field).Type()
	if ptrType == nil {
		ptrType = types.NewPointer(ft)
	}
	if isStruct(ft) {
		return term(e.mkSub(st, stt, field, base), SRef, ptrType)
	}
	h, _ := e.d.FieldHeap(stt, field)
	if isArray(ft) {
		return Val{K: KArrPtr, Heap: h, Base: base, Typ: ptrType}
	}
	return Val{K: KField, Heap: h, Base: base, Typ: ptrType}
}

func (e *Engine) doIndexAddr(st *State, in *ssa.IndexAddr) {
	x := e.val(st, in.X)
	i := e.val(st, in.Index)
	switch xt := in.X.Type().Underlying().(type) {
	case *types.Slice:
		if x.S == SBytes {
			e.safety(st, "index", in, fmt.Sprintf("(and (<= 0 %s) (< %s (blen %s)))", i.T, i.T, x.T))
			e.setReg(st, in, Val{K: KByteElem, T: x.T, Idx: i.T, Typ: in.Type()})
			return
		}
		e.safety(st, "index", in, fmt.Sprintf("(and (<= 0 %s) (< %s (slen %s)))", i.T, i.T, x.T))
		et := xt.Elem()
		idx := fmt.Sprintf("(sidx %s %s)", x.T, i.T)
		if isStruct(et) {
			e.setReg(st, in, term(e.mkERef(st, et, app("sarr", x.T), idx), SRef, in.Type()))
			return
		}
		// (elements of array type are values of sort (Array Int T): whole loads and stores work, indexing into an
		// element through its address is refused further down as "indexaddr base kind")
		h := e.d.ElemHeapT(et)
		e.setReg(st, in, Val{K: KElem, Heap: h, Base: app("sarr", x.T), Idx: idx, Typ: in.Type()})
	case *types.Pointer:
		at := xt.Elem().Underlying().(*types.Array)
		et := at.Elem()
		bound := fmt.Sprintf("(and (<= 0 %s) (< %s %d))", i.T, i.T, at.Len())
		e.safety(st, "index", in, bound)
		switch x.K {
		case KTerm:
			e.safety(st, "nil", in, not(eq(x.T, "rnil")))
			if isStruct(et) {
				e.setReg(st, in, term(e.mkERef(st, et, x.T, i.T), SRef, in.Type()))
				return
			}
			h := e.d.ElemHeapT(et)
			e.setReg(st, in, Val{K: KElem, Heap: h, Base: x.T, Idx: i.T, Typ: in.Type()})
		case KArrPtr:
			if isStruct(et) {
				panic(unsupported("array-of-struct field"))
			}
			e.setReg(st, in, Val{K: KElem, Heap: x.Heap, Base: x.Base, Idx: i.T, Typ: in.Type()})
		default:
			panic(unsupported("indexaddr base kind"))
		}
	default:
		panic(unsupported("indexaddr on " + in.X.Type().String()))
	}
}

func (e *Engine) doIndex(st *State, in *ssa.Index) {
	x := e.val(st, in.X)
	i := e.val(st, in.Index)
	switch xt := in.X.Type().Underlying().(type) {
	case *types.Array:
		e.safety(st, "index", in, fmt.Sprintf("(and (<= 0 %s) (< %s %d))", i.T, i.T, xt.Len()))
		e.setReg(st, in, term(sel(x.T, i.T), e.d.SortOf(xt.Elem()), xt.Elem()))
	case *types.Basic: // string
		e.safety(st, "index", in, fmt.Sprintf("(and (<= 0 %s) (< %s (blen %s)))", i.T, i.T, x.T))
		e.setReg(st, in, term(e.mkBat(st, x.T, i.T), SInt, in.Type()))
	default:
		panic(unsupported("index on " + in.X.Type().String()))
	}
}

func (e *Engine) mapKeySort(mt *types.Map) Sort {
	return e.d.SortOf(mt.Key())
}

func (e *Engine) mapKey(mt *types.Map, k Val) string {
	if isString(mt.Key()) {
		return fmt.Sprintf("(ite (= (blen %s) 0) bempty %s)", k.T, k.T)
	}
	return k.T
}

func (e *Engine) doLookup(st *State, in *ssa.Lookup) {
	x := e.val(st, in.X)
	k := e.val(st, in.Index)
	mt, ok := in.X.Type().Underlying().(*types.Map)
	if !ok {
		// string index
		e.safety(st, "index", in, fmt.Sprintf("(and (<= 0 %s) (< %s (blen %s)))", k.T, k.T, x.T))
		e.setReg(st, in, term(e.mkBat(st, x.T, k.T), SInt, in.Type()))
		return
	}
	vs := e.d.SortOf(mt.Elem())
	if isStruct(mt.Elem()) {
		e.d.StructOf(mt.Elem())
	}
	dom, val, _ := e.d.MapHeaps(e.mapKeySort(mt), vs)
	kt := e.mapKey(mt, k)
	present := fmt.Sprintf("(and (not (= %s rnil)) %s)", x.T, sel(sel(st.heapGet(dom), x.T), kt))
	v := term(fmt.Sprintf("(ite %s %s %s)", present, sel(sel(st.heapGet(val), x.T), kt), e.d.Zero(vs, mt.Elem())), vs, mt.Elem())
	e.assumeTyped(st, v)
	if in.CommaOk {
		e.setReg(st, in, Val{K: KTuple, Elems: []Val{v, term(present, SBool, types.Typ[types.Bool])}})
	} else {
		e.setReg(st, in, v)
	}
}

func (e *Engine) doMapUpdate(st *State, in *ssa.MapUpdate) {
	m := e.val(st, in.Map)
	k := e.val(st, in.Key)
	v := e.val(st, in.Value)
	mt := in.Map.Type().Underlying().(*types.Map)
	e.safety(st, "nilmap", in, not(eq(m.T, "rnil")))
	dom, val, ln := e.d.MapHeaps(e.mapKeySort(mt), e.d.SortOf(mt.Elem()))
	kt := e.mapKey(mt, k)
	curd := st.heapGet(dom)
	curv := st.heapGet(val)
	curl := st.heapGet(ln)
	was := sel(sel(curd, m.T), kt)
	e.heapStore(st, ln, m.T, fmt.Sprintf("(+ %s (ite %s 0 1))", sel(curl, m.T), was))
	e.heapStore(st, dom, m.T, store(sel(curd, m.T), kt, "true"))
	e.heapStore(st, val, m.T, store(sel(curv, m.T), kt, e.asTerm(st, v)))
}

func (e *Engine) doMakeSlice(st *State, in *ssa.MakeSlice) {
	n := e.val(st, in.Len)
	c := e.val(st, in.Cap)
	e.safety(st, "makeslice", in, fmt.Sprintf("(and (<= 0 %s) (<= %s %s))", n.T, n.T, c.T))
	et := in.Type().Underlying().(*types.Slice).Elem()
	if isByte(et) {
		e.needBcap()
		b := e.freshConst(st, "mk", SBytes)
		st.assume(fmt.Sprintf("(and (= (blen %s) %s) (= (bcap %s) %s) (not (bnilp %s)))", b, n.T, b, c.T, b))
		st.assume(fmt.Sprintf("(forall ((i Int)) (! (= (bat %s i) 0) :pattern ((bat %s i))))", b, b))
		e.setReg(st, in, term(b, SBytes, in.Type()))
		return
	}
	r := e.allocRef(st, "arr")
	if !isStruct(et) {
		es := e.d.SortOf(et)
		h := e.d.ElemHeapT(et)
		e.heapStore(st, h, r, fmt.Sprintf("((as const (Array Int %s)) %s)", es, e.d.Zero(es, et)))
	} else {
		st.note("make([]struct): element zero-initialisation not modelled")
	}
	e.setReg(st, in, term(fmt.Sprintf("(mkslice %s 0 %s %s)", r, n.T, c.T), SSlice, in.Type()))
}

func (e *Engine) ifaceBox(t types.Type) (box, unbox string, id int) {
	s := e.d.SortOf(t)
	if isStruct(t) {
		e.d.StructOf(t)
	}
	name := "box_" + typeName(t)
	id = e.typeID(t)
	if !e.d.seen["f:"+name] {
		e.d.fun(name, []Sort{s}, SIface)
		e.d.fun("un"+name, []Sort{SIface}, s)
	}
	return name, "un" + name, id
}

func (e *Engine) makeIface(st *State, x Val, from types.Type, to types.Type) Val {
	if _, ok := from.Underlying().(*types.Interface); ok {
		x.Typ = to
		return x
	}
	if x.K != KTerm {
		t := e.asTerm(st, x)
		x = term(t, SRef, from)
	}
	box, unbox, id := e.ifaceBox(from)
	r := app(box, x.T)
	if hasBound(r) {
		// boxed term under a binder: the instance fact cannot be stated, use the (keyed) quantified form
		srt := e.d.SortOf(from)
		e.d.axiomKeyed(fmt.Sprintf("(forall ((bx %s)) (! (and (= (%s (%s bx)) bx) (= (ityp (%s bx)) %d) (not (= (%s bx) inil))) :pattern ((%s bx))))", srt, unbox, box, box, id, box, box), box)
	}
	e.fact(st, "box:"+r, fmt.Sprintf("(and (= (%s %s) %s) (= (ityp %s) %d) (not (= %s inil)))", unbox, r, x.T, r, id, r))
	res := term(r, SIface, to)
	bx := x
	res.Box = &bx
	return res
}

func (e *Engine) doTypeAssert(st *State, in *ssa.TypeAssert) {
	x := e.val(st, in.X)
	at := in.AssertedType
	var ok string
	var v Val
	if _, isIface := at.Underlying().(*types.Interface); isIface {
		okc := e.freshConst(st, "taok", SBool)
		st.assume(implies(okc, not(eq(x.T, "inil"))))
		// asserting to an interface the static type already satisfies succeeds for non-nil
		if types.AssignableTo(in.X.Type(), at) {
			st.assume(eq(okc, not(eq(x.T, "inil"))))
		}
		ok = okc
		v = term(x.T, SIface, at)
	} else {
		box, unbox, id := e.ifaceBox(at)
		ok = fmt.Sprintf("(= (ityp %s) %d)", x.T, id)
		v = term(app(unbox, x.T), e.d.SortOf(at), at)
		e.fact(st, "unbox:"+v.T, fmt.Sprintf("(=> %s (= (%s %s) %s))", ok, box, v.T, x.T))
	}
	if in.CommaOk {
		zero := e.d.Zero(v.S, at)
		res := term(fmt.Sprintf("(ite %s %s %s)", ok, v.T, zero), v.S, at)
		e.setReg(st, in, Val{K: KTuple, Elems: []Val{res, term(ok, SBool, types.Typ[types.Bool])}})
	} else {
		e.safety(st, "typeassert", in, ok)
		st.assume(ok)
		e.assumeTyped(st, v)
		e.setReg(st, in, v)
	}
}

func (e *Engine) doSlice(st *State, in *ssa.Slice) {
	x := e.val(st, in.X)
	var lo, hi string
	lo = "0"
	if in.Low != nil {
		lo = e.val(st, in.Low).T
	}
	if in.Max != nil {
		st.note("3-index slice: max ignored")
	}
	switch xt := in.X.Type().Underlying().(type) {
	case *types.Basic: // string
		hi = app("blen", x.T)
		if in.High != nil {
			hi = e.val(st, in.High).T
		}
		e.safety(st, "slice", in, fmt.Sprintf("(and (<= 0 %s) (<= %s %s) (<= %s (blen %s)))", lo, lo, hi, hi, x.T))
		e.setReg(st, in, term(e.mkBslice(st, x.T, lo, hi), SBytes, in.Type()))
	case *types.Slice:
		if x.S == SBytes {
			e.needBcap()
			hi = app("blen", x.T)
			if in.High != nil {
				hi = e.val(st, in.High).T
			}
			e.safety(st, "slice", in, fmt.Sprintf("(and (<= 0 %s) (<= %s %s) (<= %s (bcap %s)))", lo, lo, hi, hi, x.T))
			if in.Low == nil && in.High == nil {
				e.setReg(st, in, x)
				return
			}
			e.setReg(st, in, term(e.mkBslice(st, x.T, lo, hi), SBytes, in.Type()))
			return
		}
		hi = app("slen", x.T)
		if in.High != nil {
			hi = e.val(st, in.High).T
		}
		e.safety(st, "slice", in, fmt.Sprintf("(and (<= 0 %s) (<= %s %s) (<= %s (scap %s)))", lo, lo, hi, hi, x.T))
		e.setReg(st, in, term(fmt.Sprintf("(mkslice (sarr %s) (+ (soff %s) %s) (- %s %s) (- (scap %s) %s))", x.T, x.T, lo, hi, lo, x.T, lo), SSlice, in.Type()))
	case *types.Pointer:
		at := xt.Elem().Underlying().(*types.Array)
		hi = fmt.Sprintf("%d", at.Len())
		if in.High != nil {
			hi = e.val(st, in.High).T
		}
		e.safety(st, "slice", in, fmt.Sprintf("(and (<= 0 %s) (<= %s %s) (<= %s %d))", lo, lo, hi, hi, at.Len()))
		if isByte(at.Elem()) {
			// snapshot of the array content as an immutable byte string
			e.needBcap()
			e.d.fun("arr2b", []Sort{"(Array Int Int)", SInt, SInt}, SBytes)
			e.d.axiomKeyed("(forall ((a (Array Int Int)) (lo Int) (hi Int)) (! (and (= (blen (arr2b a lo hi)) (- hi lo)) (not (bnilp (arr2b a lo hi)))) :pattern ((arr2b a lo hi))))", "arr2b")
			e.d.axiomKeyed("(forall ((a (Array Int Int)) (lo Int) (hi Int) (i Int)) (! (=> (and (<= 0 i) (< i (- hi lo))) (= (bat (arr2b a lo hi) i) (select a (+ lo i)))) :pattern ((bat (arr2b a lo hi) i))))", "arr2b")
			var arr string
			switch x.K {
			case KTerm:
				e.safety(st, "nil", in, not(eq(x.T, "rnil")))
				arr = sel(st.heapGet(e.d.ElemHeapT(at.Elem())), x.T)
			case KArrPtr:
				arr = sel(st.heapGet(x.Heap), x.Base)
			default:
				panic(unsupported("slice of array pointer kind"))
			}
			b := term(app("arr2b", arr, lo, hi), SBytes, in.Type())
			// remember the backing array: a `copy` INTO this slice is a write to the array
			switch x.K {
			case KTerm:
				b.Heap, b.Base, b.Idx = e.d.ElemHeapT(at.Elem()), x.T, lo
			case KArrPtr:
				b.Heap, b.Base, b.Idx = x.Heap, x.Base, lo
			}
			st.assume(fmt.Sprintf("(= (bcap %s) (- %d %s))", b.T, at.Len(), lo))
			st.note("slice of a byte array taken as an immutable snapshot (writes through the slice are not reflected in the array)")
			e.setReg(st, in, b)
			return
		}
		if x.K != KTerm {
			panic(unsupported("slice of non-byte array field"))
		}
		e.safety(st, "nil", in, not(eq(x.T, "rnil")))
		e.setReg(st, in, term(fmt.Sprintf("(mkslice %s %s (- %s %s) (- %d %s))", x.T, lo, hi, lo, at.Len(), lo), SSlice, in.Type()))
	default:
		panic(unsupported("slice of " + in.X.Type().String()))
	}
}

func (e *Engine) convert(st *State, x Val, from, to types.Type) Val {
	fs, ts := e.d.SortOf(from), e.d.SortOf(to)
	switch {
	case fs == SInt && ts == SInt:
		if m, ok := uintMod(to); ok {
			// exact wrap into the unsigned range
			if mf, ok2 := uintMod(from); ok2 && len(mf) <= len(m) && (len(mf) < len(m) || mf <= m) {
				return term(x.T, SInt, to)
			}
			return term(fmt.Sprintf("(mod %s %s)", x.T, m), SInt, to)
		}
		return term(x.T, SInt, to)
	case fs == SBytes && ts == SBytes:
		if isString(to) && !isString(from) {
			return term(fmt.Sprintf("(ite (= (blen %s) 0) bempty %s)", x.T, x.T), SBytes, to)
		}
		return term(x.T, SBytes, to)
	case fs == SInt && ts == SFloat, fs == SFloat && ts == SInt, fs == SFloat && ts == SFloat:
		v := e.freshVal(st, "fconv", to)
		return v
	case fs == SInt && ts == SBytes:
		return e.freshVal(st, "runestr", to)
	case fs == SRef && ts == SRef:
		return term(x.T, SRef, to)
	case fs == SBytes && ts == SSlice, fs == SSlice && ts == SBytes:
		return e.freshVal(st, "runeconv", to)
	}
	panic(unsupported(fmt.Sprintf("convert %s -> %s", from, to)))
}

func (e *Engine) doNext(st *State, in *ssa.Next) {
	it := e.val(st, in.Iter)
	tup := in.Type().(*types.Tuple)
	okv := e.freshVal(st, "nextok", types.Typ[types.Bool])
	if in.IsString {
		k := e.freshVal(st, "ri", types.Typ[types.Int])
		v := e.freshVal(st, "rr", tup.At(2).Type())
		e.setReg(st, in, Val{K: KTuple, Elems: []Val{okv, k, v}})
		return
	}
	m := it.Elems[0]
	mt := it.Typ.Underlying().(*types.Map)
	dom, val, _ := e.d.MapHeaps(e.mapKeySort(mt), e.d.SortOf(mt.Elem()))
	var k, v Val
	if tup.At(1).Type() != nil && e.isValidType(tup.At(1).Type()) {
		k = e.freshVal(st, "mk", mt.Key())
	} else {
		k = e.freshVal(st, "mk", mt.Key())
	}
	kt := e.mapKey(mt, k)
	st.assume(implies(okv.T, and(not(eq(m.T, "rnil")), sel(sel(st.heapGet(dom), m.T), kt))))
	v = term(sel(sel(st.heapGet(val), m.T), kt), e.d.SortOf(mt.Elem()), mt.Elem())
	e.assumeTyped(st, v)
	e.setReg(st, in, Val{K: KTuple, Elems: []Val{okv, k, v}})
}

func (e *Engine) isValidType(t types.Type) bool {
	b, ok := t.(*types.Basic)
	return !ok || b.Kind() != types.Invalid
}

func (e *Engine) doSelect(st *State, in *ssa.Select) {
	tup := in.Type().(*types.Tuple)
	var elems []Val
	idx := e.freshVal(st, "selidx", types.Typ[types.Int])
	lo := 0
	if !in.Blocking {
		lo = -1
	}
	st.assume(fmt.Sprintf("(and (<= %d %s) (< %s %d))", lo, idx.T, idx.T, len(in.States)))
	elems = append(elems, idx)
	elems = append(elems, e.freshVal(st, "selok", types.Typ[types.Bool]))
	for i := 2; i < tup.Len(); i++ {
		elems = append(elems, e.freshVal(st, "selrecv", tup.At(i).Type()))
	}
	e.setReg(st, in, Val{K: KTuple, Elems: elems})
}

func (e *Engine) doPanic(st *State, instr ssa.Instruction, why string) {
	e.abortPoint(st, instr, why)
	st.dead = true
}

// abortPoint emits the obligation that this point is unreachable, or reached only under an `aborts when` clause.
func (e *Engine) abortPoint(st *State, instr ssa.Instruction, why string) {
	if st.dry != nil {
		return
	}
	// the contract of the outermost function decides
	root := st.frames[0]
	goal := "false"
	if root.fc != nil && len(root.fc.Aborts) > 0 {
		var alts []string
		for _, c := range root.fc.Aborts {
			env := e.envFor(st, root, nil)
			v := e.evalBool(env, c)
			alts = append(alts, v)
		}
		goal = or(alts...)
	}
	fr := st.top()
	if fr.fc != nil && fr.fc.NoSafety {
		return
	}
	pos := instr.Pos()
	if !pos.IsValid() {
		pos = nearestPos(instr)
	}
	detail := e.srcLine(e.fset.Position(pos))
	if len(detail) > 70 {
		detail = detail[:70]
	}
	e.oblige(st, "safety:"+why, pos, detail, goal)
}

// localStructOK: the struct-typed local is only stored to / loaded from as a whole or through field addresses
// (recursively); its address is never passed to a call, stored, or compared.
func (e *Engine) localStructOK(a *ssa.Alloc) bool {
	if a.Heap {
		return false
	}
	if v, ok := e.localOK[a]; ok {
		return v
	}
	var okAddr func(v ssa.Value, t types.Type) bool
	okAddr = func(v ssa.Value, t types.Type) bool {
		refs := v.Referrers()
		if refs == nil {
			return false
		}
		for _, r := range *refs {
			switch u := r.(type) {
			case *ssa.Store:
				if u.Addr != v || u.Val == v {
					return false
				}
			case *ssa.UnOp:
				if u.Op != token.MUL {
					return false
				}
			case *ssa.FieldAddr:
				if u.X != v {
					return false
				}
				ft := t.Underlying().(*types.Struct).Field(u.Field).Type()
				// (an array-typed field is fine as long as it is only loaded or stored as a whole: checked below like a leaf)
				if isStruct(ft) {
					if !okAddr(u, ft) {
						return false
					}
				} else {
					// leaf field address: only loads and stores through it
					lr := u.Referrers()
					if lr == nil {
						return false
					}
					for _, x := range *lr {
						switch y := x.(type) {
						case *ssa.Store:
							if y.Addr != u || y.Val == u {
								return false
							}
						case *ssa.UnOp:
							if y.Op != token.MUL {
								return false
							}
						case *ssa.DebugRef:
						default:
							return false
						}
					}
				}
			case *ssa.DebugRef:
			default:
				return false
			}
		}
		return true
	}
	t := a.Type().(*types.Pointer).Elem()
	ok := okAddr(a, t)
	e.localOK[a] = ok
	return ok
}

func hasOblig(items []Item) bool {
	for _, it := range items {
		if it.Kind == ItOblig {
			return true
		}
	}
	return false
}

func (e *Engine) recordStackLocs(st *State, r string, t types.Type) {
	switch u := t.Underlying().(type) {
	case *types.Struct:
		for _, l := range e.allLeaves(r, t) {
			if l.Heap != "" && l.Base != "" {
				st.stackLocs = append(st.stackLocs, [2]string{l.Heap, l.Base})
			}
		}
	case *types.Array:
		if !isStruct(u.Elem()) {
			st.stackLocs = append(st.stackLocs, [2]string{e.d.ElemHeapT(u.Elem()), r})
		}
	}
}

// restoreStackLocs: after a call, the objects of the activation record are as they were before it.
func (e *Engine) restoreStackLocs(st *State, pre map[string]string) {
	for _, hb := range st.stackLocs {
		h, b := hb[0], hb[1]
		old, ok := pre[h]
		if !ok {
			old = h
		}
		cur := st.heapGet(h)
		if cur != old {
			st.assume(fmt.Sprintf("(= (select %s %s) (select %s %s))", cur, b, old, b))
		}
	}
}
