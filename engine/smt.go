package main

// SMT layer: sorts, declarations, term helpers.

import (
	"sync"
	"fmt"
	"go/types"
	"sort"
	"strings"
)

type Sort string

const (
	SInt   Sort = "Int"
	SBool  Sort = "Bool"
	SRef   Sort = "Ref"
	SBytes Sort = "Bytes"
	SSlice Sort = "Slice"
	SIface Sort = "Iface"
	SFloat Sort = "Float"
)

// Decls is the global registry of sorts, functions and axioms (the prelude).
type Decls struct {
	order   []string          // declaration text in dependency order
	seen    map[string]bool   // by key
	structs map[string]*StructInfo
	axioms  []string
	keyed   []keyedAxiom
	nfresh  int
}

type StructInfo struct {
	Name   string // SMT datatype name
	T      *types.Struct
	Named  types.Type
	Fields []string // selector names
	Sorts  []Sort
}

func NewDecls() *Decls {
	d := &Decls{seen: map[string]bool{}, structs: map[string]*StructInfo{}}
	d.raw("sort:Ref", "(declare-sort Ref 0)")
	d.raw("sort:Bytes", "(declare-sort Bytes 0)")
	d.raw("sort:Iface", "(declare-sort Iface 0)")
	d.raw("sort:Float", "(declare-sort Float 0)")
	d.raw("dt:Slice", "(declare-datatypes ((Slice 0)) (((mkslice (sarr Ref) (soff Int) (slen Int) (scap Int)))))")
	d.raw("c:rnil", "(declare-const rnil Ref)")
	d.raw("c:inil", "(declare-const inil Iface)")
	d.raw("c:bnil", "(declare-const bnil Bytes)")
	d.raw("c:bempty", "(declare-const bempty Bytes)")
	d.raw("f:blen", "(declare-fun blen (Bytes) Int)")
	d.raw("f:bnilp", "(declare-fun bnilp (Bytes) Bool)")
	d.raw("f:bat", "(declare-fun bat (Bytes Int) Int)")
	d.raw("f:bslice", "(declare-fun bslice (Bytes Int Int) Bytes)")
	d.raw("f:bconcat", "(declare-fun bconcat (Bytes Bytes) Bytes)")
	d.raw("f:ityp", "(declare-fun ityp (Iface) Int)")
	d.raw("f:snil", "(define-fun snil () Slice (mkslice rnil 0 0 0))")
	d.raw("f:sidx", "(declare-fun sidx (Slice Int) Int)")
	d.axiomKeyed("(forall ((s Slice) (i Int)) (! (= (sidx s i) (+ (soff s) i)) :pattern ((sidx s i))))", "sidx")
	d.raw("f:beq", "(define-fun beq ((a Bytes) (b Bytes)) Bool (or (= a b) (and (= (blen a) 0) (= (blen b) 0))))")
	d.raw("f:gomod", "(define-fun gomod ((a Int) (b Int)) Int (ite (>= a 0) (mod a (ite (>= b 0) b (- b))) (- (mod (- a) (ite (>= b 0) b (- b))))))")
	d.raw("f:godiv", "(define-fun godiv ((a Int) (b Int)) Int (ite (>= a 0) (ite (> b 0) (div a b) (- (div a (- b)))) (ite (> b 0) (- (div (- a) b)) (div (- a) (- b)))))")
	d.axiom("(= (blen bnil) 0)")
	d.axiom("(bnilp bnil)")
	d.axiom("(not (bnilp bempty))")
	d.axiom("(= (blen bempty) 0)")
	d.raw("f:bcap", "(declare-fun bcap (Bytes) Int)")
	d.axiom("(and (= (bcap bnil) 0) (>= (bcap bempty) 0))")
	d.axiomKeyed("(forall ((b Bytes) (lo Int) (hi Int) (i Int)) (! (=> (and (<= 0 lo) (<= 0 i) (< i (- hi lo))) (= (bat (bslice b lo hi) i) (bat b (+ lo i)))) :pattern ((bat (bslice b lo hi) i))))", "bslice")
	d.axiom("(= (ityp inil) 0)")
	return d
}

func (d *Decls) raw(key, text string) {
	if d.seen[key] {
		return
	}
	d.seen[key] = true
	d.order = append(d.order, text)
}

func (d *Decls) axiom(text string) {
	key := "ax:" + text
	if d.seen[key] {
		return
	}
	d.seen[key] = true
	d.axioms = append(d.axioms, text)
}

// keyed axioms that were included in at least one solver script of this run
var usedKeyed = map[string]bool{}
var usedKeyedMu sync.Mutex

type keyedAxiom struct {
	text string
	keys []string
}

// axiomKeyed registers an axiom that is included in a script only if one of the key symbols occurs in it.
func (d *Decls) axiomKeyed(text string, keys ...string) {
	key := "ax:" + text
	if d.seen[key] {
		return
	}
	d.seen[key] = true
	d.keyed = append(d.keyed, keyedAxiom{text, keys})
}

func (d *Decls) fun(name string, args []Sort, res Sort) {
	as := make([]string, len(args))
	for i, a := range args {
		as[i] = string(a)
	}
	d.raw("f:"+name, fmt.Sprintf("(declare-fun %s (%s) %s)", name, strings.Join(as, " "), res))
}

func (d *Decls) konst(name string, s Sort) {
	d.raw("c:"+name, fmt.Sprintf("(declare-const %s %s)", name, s))
}

func (d *Decls) fresh(prefix string) string {
	d.nfresh++
	return fmt.Sprintf("%s!%d", prefix, d.nfresh)
}

// KeyedAxioms returns the keyed axioms relevant for a script body.
func (d *Decls) KeyedAxioms(body string) string {
	var sb strings.Builder
	for _, k := range d.keyed {
		for _, key := range k.keys {
			if strings.Contains(body, "("+key+" ") {
				sb.WriteString("(assert " + k.text + ")\n")
				usedKeyedMu.Lock()
				usedKeyed[k.text] = true
				usedKeyedMu.Unlock()
				break
			}
		}
	}
	return sb.String()
}

// PreludeQF: declarations plus the quantifier-free axioms only (used for feasibility pruning).
func (d *Decls) PreludeQF() string {
	var sb strings.Builder
	for _, t := range d.order {
		sb.WriteString(t)
		sb.WriteString("\n")
	}
	for _, a := range d.axioms {
		if strings.Contains(a, "(forall ") || strings.Contains(a, "(exists ") {
			continue
		}
		sb.WriteString("(assert ")
		sb.WriteString(a)
		sb.WriteString(")\n")
	}
	return sb.String()
}

func (d *Decls) Prelude() string {
	var sb strings.Builder
	for _, t := range d.order {
		sb.WriteString(t)
		sb.WriteString("\n")
	}
	for _, a := range d.axioms {
		sb.WriteString("(assert ")
		sb.WriteString(a)
		sb.WriteString(")\n")
	}
	return sb.String()
}

func sanitize(s string) string {
	var sb strings.Builder
	for _, r := range s {
		switch {
		case r >= 'a' && r <= 'z', r >= 'A' && r <= 'Z', r >= '0' && r <= '9', r == '_':
			sb.WriteRune(r)
		case r == '.' || r == '/' || r == '-':
			sb.WriteRune('_')
		case r == '*':
			sb.WriteString("p")
		case r == '[' || r == ']':
			sb.WriteString("s")
		default:
			sb.WriteString("_")
		}
	}
	return sb.String()
}

const modPrefix = "github.com/dappledger/AnnChain/"

func shortPkg(path string) string {
	path = strings.TrimPrefix(path, modPrefix)
	return path
}

// typeName gives a short stable name for a named type (pkglast_Name).
func typeName(t types.Type) string {
	switch t := t.(type) {
	case *types.Named:
		obj := t.Obj()
		if obj.Pkg() != nil {
			return pkgTag(obj.Pkg().Path()) + "_" + obj.Name()
		}
		return obj.Name()
	case *types.Alias:
		return typeName(types.Unalias(t))
	case *types.Pointer:
		return "p" + typeName(t.Elem())
	case *types.Slice:
		return "s" + typeName(t.Elem())
	case *types.Array:
		return fmt.Sprintf("a%d%s", t.Len(), typeName(t.Elem()))
	case *types.Basic:
		return t.Name()
	case *types.Map:
		return "m" + typeName(t.Key()) + "_" + typeName(t.Elem())
	case *types.Struct:
		var sb strings.Builder
		sb.WriteString("anon")
		for i := 0; i < t.NumFields(); i++ {
			sb.WriteString("_" + t.Field(i).Name())
		}
		return sb.String()
	case *types.Interface:
		return "iface"
	case *types.Signature:
		return "func"
	case *types.Chan:
		return "chan"
	case *types.Tuple:
		return "tuple"
	}
	return sanitize(t.String())
}

// pkgTag: short, collision-free tag for a package path. Several packages of the repository share their last
// path element (gemmill/types, eth/core/types, chain/types; gemmill/state, eth/core/state; ...): those get a
// longer tag so that their struct types never share heap arrays.
var pkgTagOverride = map[string]string{
	"eth/core/types": "etypes", "chain/types": "ctypes", "eth/core/state": "estate", "eth/common": "ecommon",
	"eth/core": "ecore", "eth/core/vm": "evm_", "eth/crypto": "ecrypto", "eth/log": "elog", "eth/params": "eparams",
	"eth/rlp": "erlp", "eth/trie": "etrie", "eth/ethdb": "ethdb", "eth/event": "eevent", "eth/metrics": "emetrics",
}

func pkgTag(path string) string {
	sp := shortPkg(path)
	if t, ok := pkgTagOverride[sp]; ok {
		return t
	}
	if i := strings.LastIndex(sp, "/"); i >= 0 {
		sp = sp[i+1:]
	}
	return sanitize(sp)
}

func isByte(t types.Type) bool {
	b, ok := t.Underlying().(*types.Basic)
	return ok && (b.Kind() == types.Uint8)
}

// SortOf maps a Go type to its SMT sort (declaring datatypes on demand).
func (d *Decls) SortOf(t types.Type) Sort {
	t = types.Unalias(t)
	switch u := t.Underlying().(type) {
	case *types.Basic:
		switch {
		case u.Info()&types.IsBoolean != 0:
			return SBool
		case u.Info()&types.IsInteger != 0:
			return SInt
		case u.Info()&types.IsString != 0:
			return SBytes
		case u.Info()&types.IsFloat != 0, u.Info()&types.IsComplex != 0:
			return SFloat
		case u.Kind() == types.UnsafePointer:
			return SRef
		case u.Kind() == types.UntypedNil:
			return SRef
		}
		return SInt
	case *types.Pointer, *types.Map, *types.Chan, *types.Signature:
		return SRef
	case *types.Slice:
		if isByte(u.Elem()) {
			return SBytes
		}
		return SSlice
	case *types.Array:
		return Sort(fmt.Sprintf("(Array Int %s)", d.SortOf(u.Elem())))
	case *types.Struct:
		return Sort(d.StructOf(t).Name)
	case *types.Interface:
		return SIface
	case *types.Tuple:
		return "Tuple"
	}
	panic(unsupported("sort of type " + t.String()))
}

func (d *Decls) StructOf(t types.Type) *StructInfo {
	t = types.Unalias(t)
	st := t.Underlying().(*types.Struct)
	name := "S_" + typeName(t)
	if si, ok := d.structs[name]; ok {
		return si
	}
	si := &StructInfo{Name: name, T: st, Named: t}
	d.structs[name] = si // (recursive struct values are impossible in Go)
	var flds []string
	for i := 0; i < st.NumFields(); i++ {
		f := st.Field(i)
		s := d.SortOf(f.Type())
		sel := fmt.Sprintf("%s__%s", name, sanitize(f.Name()))
		if f.Name() == "_" {
			sel = fmt.Sprintf("%s__blank%d", name, i)
		}
		si.Fields = append(si.Fields, sel)
		si.Sorts = append(si.Sorts, s)
		flds = append(flds, fmt.Sprintf("(%s %s)", sel, s))
	}
	if len(flds) == 0 {
		d.raw("dt:"+name, fmt.Sprintf("(declare-datatypes ((%s 0)) (((mk_%s))))", name, name))
	} else {
		d.raw("dt:"+name, fmt.Sprintf("(declare-datatypes ((%s 0)) (((mk_%s %s))))", name, name, strings.Join(flds, " ")))
	}
	return si
}

// heap array name for leaf field i of struct type t.
func (d *Decls) FieldHeap(t types.Type, i int) (string, Sort) {
	st := t.Underlying().(*types.Struct)
	f := st.Field(i)
	s := d.SortOf(f.Type())
	name := fmt.Sprintf("H_%s_%s", typeName(t), sanitize(f.Name()))
	if f.Name() == "_" {
		name = fmt.Sprintf("H_%s_blank%d", typeName(t), i)
	}
	d.konst(name, Sort(fmt.Sprintf("(Array Ref %s)", s)))
	return name, s
}

func (d *Decls) SubRef(t types.Type, i int) string {
	st := t.Underlying().(*types.Struct)
	f := st.Field(i)
	name := fmt.Sprintf("sub_%s_%s", typeName(t), sanitize(f.Name()))
	d.fun(name, []Sort{SRef}, SRef)
	d.fun(name+"_inv", []Sort{SRef}, SRef)
	return name
}

func sortKey(s Sort) string { return sanitize(string(s)) }

// element heap for slices/arrays of leaf sort s
// ElemHeapT: element heap for slices/arrays whose element type is et. Heaps are split by Go element
// type: Go's type system rules out aliasing between backing arrays of different element types.
func (d *Decls) ElemHeapT(et types.Type) string {
	s := d.SortOf(et)
	name := "E_" + typeName(et)
	d.konst(name, Sort(fmt.Sprintf("(Array Ref (Array Int %s))", s)))
	return name
}

func (d *Decls) ElemHeap(s Sort) string {
	name := "E_" + sortKey(s)
	d.konst(name, Sort(fmt.Sprintf("(Array Ref (Array Int %s))", s)))
	return name
}

// interior reference for element idx of an array of struct values
func (d *Decls) ERef(t types.Type) string {
	name := "eref_" + typeName(t)
	d.fun(name, []Sort{SRef, SInt}, SRef)
	d.fun(name+"_a", []Sort{SRef}, SRef)
	d.fun(name+"_i", []Sort{SRef}, SInt)
	d.fun("stamp", []Sort{SRef}, SInt)
	d.axiomKeyed(fmt.Sprintf("(forall ((r Ref) (i Int)) (! (and (= (stamp (%s r i)) (stamp r)) (= (%s_a (%s r i)) r) (= (%s_i (%s r i)) i) (not (= (%s r i) rnil))) :pattern ((%s r i))))", name, name, name, name, name, name, name), name)
	return name
}

// box heap for pointers to leaf sort
func (d *Decls) BoxHeap(s Sort) string {
	name := "P_" + sortKey(s)
	d.konst(name, Sort(fmt.Sprintf("(Array Ref %s)", s)))
	return name
}

func (d *Decls) MapHeaps(k, v Sort) (dom, val, ln string) {
	base := "M_" + sortKey(k) + "_" + sortKey(v)
	dom, val, ln = base+"_dom", base+"_val", "M_len"
	d.konst(dom, Sort(fmt.Sprintf("(Array Ref (Array %s Bool))", k)))
	d.konst(val, Sort(fmt.Sprintf("(Array Ref (Array %s %s))", k, v)))
	d.konst(ln, "(Array Ref Int)")
	return
}

// zero value term of a sort
func (d *Decls) Zero(s Sort, t types.Type) string {
	switch s {
	case SInt:
		return "0"
	case SBool:
		return "false"
	case SRef:
		return "rnil"
	case SBytes:
		if t != nil {
			if b, ok := t.Underlying().(*types.Basic); ok && b.Info()&types.IsString != 0 {
				return "bempty"
			}
		}
		return "bnil"
	case SSlice:
		return "snil"
	case SIface:
		return "inil"
	case SFloat:
		d.konst("fzero", SFloat)
		return "fzero"
	}
	if strings.HasPrefix(string(s), "(Array Int ") {
		es := Sort(strings.TrimSuffix(strings.TrimPrefix(string(s), "(Array Int "), ")"))
		var et types.Type
		if t != nil {
			if a, ok := t.Underlying().(*types.Array); ok {
				et = a.Elem()
			}
		}
		return fmt.Sprintf("((as const %s) %s)", s, d.Zero(es, et))
	}
	if si, ok := d.structs[string(s)]; ok {
		if len(si.Fields) == 0 {
			return "mk_" + si.Name
		}
		var parts []string
		for i := range si.Fields {
			parts = append(parts, d.Zero(si.Sorts[i], si.T.Field(i).Type()))
		}
		return fmt.Sprintf("(mk_%s %s)", si.Name, strings.Join(parts, " "))
	}
	panic(unsupported("zero of sort " + string(s)))
}

func and(xs ...string) string {
	var ys []string
	for _, x := range xs {
		if x == "false" {
			return "false"
		}
		if x == "true" || x == "" {
			continue
		}
		ys = append(ys, x)
	}
	if len(ys) == 0 {
		return "true"
	}
	if len(ys) == 1 {
		return ys[0]
	}
	return "(and " + strings.Join(ys, " ") + ")"
}

func or(xs ...string) string {
	var ys []string
	for _, x := range xs {
		if x == "true" {
			return "true"
		}
		if x == "false" || x == "" {
			continue
		}
		ys = append(ys, x)
	}
	if len(ys) == 0 {
		return "false"
	}
	if len(ys) == 1 {
		return ys[0]
	}
	return "(or " + strings.Join(ys, " ") + ")"
}

func not(x string) string {
	if x == "true" {
		return "false"
	}
	if x == "false" {
		return "true"
	}
	return "(not " + x + ")"
}

func implies(a, b string) string { return "(=> " + a + " " + b + ")" }
func eq(a, b string) string      { return "(= " + a + " " + b + ")" }
func sel(a, i string) string     { return "(select " + a + " " + i + ")" }
func store(a, i, v string) string {
	return "(store " + a + " " + i + " " + v + ")"
}
func app(f string, args ...string) string {
	if len(args) == 0 {
		return f
	}
	return "(" + f + " " + strings.Join(args, " ") + ")"
}
func intLit(n int64) string {
	if n < 0 {
		return fmt.Sprintf("(- %d)", -n)
	}
	return fmt.Sprintf("%d", n)
}

func sortedKeys[V any](m map[string]V) []string {
	ks := make([]string, 0, len(m))
	for k := range m {
		ks = append(ks, k)
	}
	sort.Strings(ks)
	return ks
}

type unsupportedErr struct{ msg string }

func (u unsupportedErr) Error() string { return "unsupported: " + u.msg }
func unsupported(msg string) error     { return unsupportedErr{msg} }

// constSort returns the declared sort of a constant.
func (d *Decls) constSort(name string) (Sort, bool) {
	if !d.seen["c:"+name] {
		return "", false
	}
	pre := "(declare-const " + name + " "
	for _, t := range d.order {
		if strings.HasPrefix(t, pre) {
			return Sort(strings.TrimSuffix(strings.TrimPrefix(t, pre), ")")), true
		}
	}
	return "", false
}
