package main

import (
	"encoding/json"
	"flag"
	"fmt"
	"go/token"
	"os"
	"path/filepath"
	"runtime"
	"sort"
	"strconv"
	"strings"
	"time"

	"golang.org/x/tools/go/packages"
	"golang.org/x/tools/go/ssa"
	"golang.org/x/tools/go/ssa/ssautil"
)

type KnownFinding struct {
	Property   string `json:"property"`
	Obligation string `json:"obligation"`
	What       string `json:"what_fails"`
	Input      string `json:"input,omitempty"`
	Status     string `json:"status"` // open | fixed
	Commit     string `json:"commit,omitempty"`
}

type Expected struct {
	Discharged []string `json:"discharged"`
	Undecided  []string `json:"undecided"`
}

type ObStatus struct {
	Name     string
	Class    string
	Func     string
	Status   string // discharged | sat | unknown
	Queries  int
	Backend  map[string]int
	Time     float64
	MaxTime  float64 // slowest single query
	Model    string
	Script   string
	Pos      token.Position
	Detail   string
}

func main() {
	repo := flag.String("repo", "/repo", "repository root")
	verif := flag.String("verif", "/verif", "verification root")
	prop := flag.String("prop", "", "property id")
	tier := flag.String("tier", "quick", "quick|thorough")
	only := flag.String("func", "", "only functions whose key contains this")
	update := flag.Bool("update", false, "rewrite expected/<prop>.json from this run")
	verbose := flag.Bool("v", false, "verbose")
	list := flag.Bool("list", false, "list functions per property")
	jobs := flag.Int("j", runtime.NumCPU()-1, "parallel solver processes")
	timeout := flag.Int("timeout", 0, "per-query timeout ms")
	noEvidence := flag.Bool("no-evidence", false, "do not write evidence")
	workFlag := flag.String("work", "", "directory for solver scripts and replay files (default: the verification root; concurrent runs of one property need separate ones)")
	flag.Parse()
	workBase = *verif
	if *workFlag != "" {
		workBase = *workFlag
		os.MkdirAll(filepath.Join(workBase, "work"), 0o755)
	}
	t0 := time.Now()
	seed := 0
	if s := os.Getenv("VERIF_SEED"); s != "" {
		seed, _ = strconv.Atoi(s)
	}
	if *timeout == 0 {
		*timeout = 10000
		if *tier == "thorough" {
			*timeout = 60000
		}
	}
	cs, err := LoadAllContracts(*repo, *verif)
	if err != nil {
		fmt.Fprintln(os.Stderr, "contract load error:", err)
		os.Exit(2)
	}
	if *list {
		byProp := map[string][]string{}
		for _, fc := range cs.Funcs {
			for _, p := range fc.Props {
				byProp[p] = append(byProp[p], fc.Key)
			}
		}
		for _, p := range sortedKeys(byProp) {
			sort.Strings(byProp[p])
			fmt.Println(p, len(byProp[p]))
			for _, k := range byProp[p] {
				fmt.Println("   ", k)
			}
		}
		return
	}
	hasProp := func(ps []string) bool {
		for _, p := range ps {
			if p == *prop {
				return true
			}
		}
		return false
	}
	// select work
	var fcs []*FuncContract
	pkgSet := map[string]bool{}
	for _, k := range sortedKeys(cs.Funcs) {
		fc := cs.Funcs[k]
		if fc.Trusted || fc.PkgPath == "" {
			continue
		}
		if !hasProp(fc.Props) {
			continue
		}
		if *only != "" && !strings.Contains(fc.Key, *only) {
			continue
		}
		fcs = append(fcs, fc)
		pkgSet[fc.PkgPath] = true
	}
	var lemmas []*Lemma
	for _, l := range cs.Lemmas {
		if hasProp(l.Props) && (*only == "" || strings.Contains("lemma:"+l.Name, *only)) {
			lemmas = append(lemmas, l)
			if l.PkgPath != "" {
				pkgSet[l.PkgPath] = true
			}
		}
	}
	var writers []*WritersSpec
	for _, w := range cs.Writers {
		if hasProp(w.Props) && *only == "" {
			writers = append(writers, w)
			pkgSet[w.PkgPath] = true
		}
	}
	var defers []*DefersSpec
	for _, d := range cs.Defers {
		if hasProp(d.Props) && *only == "" {
			defers = append(defers, d)
			pkgSet[d.PkgPath] = true
		}
	}
	if len(fcs)+len(lemmas)+len(writers)+len(defers) == 0 {
		fmt.Fprintf(os.Stderr, "no contracts for property %s\n", *prop)
		os.Exit(2)
	}
	var patterns []string
	for p := range pkgSet {
		patterns = append(patterns, "./"+p)
	}
	sort.Strings(patterns)
	cfg := &packages.Config{Mode: packages.LoadAllSyntax, Dir: *repo, BuildFlags: []string{"-tags=verif"}, Overlay: map[string][]byte{}}
	// Go-written models of external functions: injected into a repository package as an overlay file (nothing is written to /repo)
	if ms, _ := filepath.Glob(filepath.Join(*verif, "contracts", "models", "*.go")); len(ms) > 0 {
		for _, m := range ms {
			b, err := os.ReadFile(m)
			if err != nil {
				continue
			}
			first := strings.SplitN(string(b), "\n", 2)[0]
			if !strings.HasPrefix(first, "// overlay: ") {
				fmt.Fprintln(os.Stderr, "model file without overlay header:", m)
				os.Exit(2)
			}
			rel := strings.TrimSpace(strings.TrimPrefix(first, "// overlay: "))
			cfg.Overlay[filepath.Join(*repo, rel)] = b
			// the package that hosts the model must be part of the load
			patterns = append(patterns, "./"+filepath.Dir(rel))
		}
	}
	pkgs, err := packages.Load(cfg, patterns...)
	if err != nil {
		fmt.Fprintln(os.Stderr, "load error:", err)
		os.Exit(2)
	}
	nerr := 0
	packages.Visit(pkgs, nil, func(p *packages.Package) {
		for _, e := range p.Errors {
			if strings.HasPrefix(p.PkgPath, modPrefix) {
				fmt.Fprintln(os.Stderr, "package error:", e)
				nerr++
			}
		}
	})
	if nerr > 0 {
		fmt.Fprintln(os.Stderr, "the repository does not type-check; cannot decide")
		os.Exit(2)
	}
	prog, _ := ssautil.AllPackages(pkgs, ssa.NaiveForm)
	prog.Build()
	e := &Engine{repoDir: *repo, prog: prog, fset: prog.Fset, d: NewDecls(), cs: cs, fnByKey: map[string]*ssa.Function{}, pkgByPath: map[string]*ssa.Package{},
		srcCache: map[string][]string{}, localOK: map[*ssa.Alloc]bool{}, typeIDs: map[string]int{}, immutableGlobals: map[*ssa.Global]bool{}, errGlobals: map[*ssa.Global]int{},
		maxPaths: 6000, maxSteps: 400000, loopIdx: map[*ssa.Function]map[*ssa.BasicBlock]int{}, loopBlocks: map[*ssa.BasicBlock]map[*ssa.BasicBlock]bool{}, verbose: *verbose}
	for _, sp := range prog.AllPackages() {
		e.pkgByPath[shortPkg(sp.Pkg.Path())] = sp
	}
	for fn := range ssautil.AllFunctions(prog) {
		e.fnByKey[fnKey(fn)] = fn
	}
	if os.Getenv("VERIF_NOPRUNE") == "" {
		e.prune = MakePruner(e, filepath.Join(workBase, "work", *prop+".feas"), 400)
	}
	e.scanGlobals()
	e.loadAxioms()

	var results []*FuncResult
	var unbound []string
	for _, fc := range fcs {
		fn := e.fnByKey[fc.Key]
		if fn == nil {
			unbound = append(unbound, fc.Key)
			continue
		}
		fc.Used = true
		r := e.VerifyFunc(fc, fn)
		results = append(results, r)
		if *verbose {
			fmt.Fprintf(os.Stderr, "[%s] %d paths, %d queries %s\n", fc.Key, len(r.Paths), len(r.Queries), r.Err)
			for _, n := range r.Notes {
				fmt.Fprintf(os.Stderr, "      note: %s\n", n)
			}
		}
	}
	for _, l := range lemmas {
		results = append(results, e.VerifyLemma(l))
	}
	wres := &FuncResult{Key: "writers"}
	for _, w := range writers {
		wres.Queries = append(wres.Queries, e.CheckWriters(w))
	}
	for _, d := range defers {
		wres.Queries = append(wres.Queries, e.CheckDefers(d))
	}
	if len(wres.Queries) > 0 {
		results = append(results, wres)
	}
	for _, k := range unbound {
		results = append(results, &FuncResult{Key: k, Err: "contract no longer binds to a function (renamed or removed)"})
	}
	if *verbose {
		fmt.Fprintf(os.Stderr, "symbolic execution done at %.1fs\n", time.Since(t0).Seconds())
	}
	work := filepath.Join(workBase, "work", *prop)
	os.RemoveAll(work)
	scfg := &SolveCfg{WorkDir: work, TimeoutMs: *timeout, Jobs: *jobs, Prelude: e.d.Prelude(), Keyed: e.d.KeyedAxioms}
	tSolve := time.Now()
	if err := SolveAll(scfg, results); err != nil {
		fmt.Fprintln(os.Stderr, "engine error:", err)
		os.Exit(2)
	}
	solveWall := time.Since(tSolve).Seconds()
	if *verbose {
		fmt.Fprintf(os.Stderr, "solving done in %.1fs\n", solveWall)
	}

	os.Exit(report(e, *prop, *tier, seed, *verif, results, *update, *verbose, t0, solveWall, *noEvidence, *only != ""))
}

// scanGlobals finds package-level variables that are only written in init and error globals built by errors.New/fmt.Errorf.
func (e *Engine) scanGlobals() {
	written := map[*ssa.Global]bool{}
	id := 0
	for fn := range ssautil.AllFunctions(e.prog) {
		isInit := fn.Name() == "init" || strings.HasPrefix(fn.Name(), "init#")
		for _, b := range fn.Blocks {
			for _, in := range b.Instrs {
				s, ok := in.(*ssa.Store)
				if !ok {
					continue
				}
				g, ok := s.Addr.(*ssa.Global)
				if !ok {
					continue
				}
				if !isInit {
					written[g] = true
					continue
				}
				if c, ok := s.Val.(*ssa.Call); ok {
					if sc := c.Call.StaticCallee(); sc != nil {
						n := sc.String()
						if n == "errors.New" || n == "fmt.Errorf" {
							id++
							e.errGlobals[g] = id
						}
					}
				}
			}
		}
	}
	for g := range e.errGlobals {
		if written[g] {
			delete(e.errGlobals, g)
		}
	}
}

var axiomText = map[string]string{}
var axiomSkipped = map[string]bool{}

func (e *Engine) loadAxioms() {
	for _, a := range e.cs.Axioms {
		st := e.newState(map[string]bool{})
		st.entry = st.snapshot()
		var pkgT = e.pkgByPath[a.PkgPath]
		env := &Env{e: e, st: st, old: st.entry, vars: map[string]Val{}}
		if pkgT != nil {
			env.pkg = pkgT.Pkg
		}
		func() {
			defer func() {
				if r := recover(); r != nil {
					axiomSkipped[a.Name] = true
					if e.verbose {
						fmt.Fprintf(os.Stderr, "axiom %s skipped (its package is not loaded in this run): %v\n", a.Name, r)
					}
				}
			}()
			t := e.evalBool(env, a.C)
			// an axiom is only relevant to a query that mentions one of the uninterpreted spec functions it constrains
			var keys []string
			for n, sf := range e.cs.Specs {
				if sf.Body == nil && strings.Contains(t, "("+n+" ") {
					keys = append(keys, n)
				}
			}
			if len(keys) > 0 {
				sort.Strings(keys)
				e.d.axiomKeyed(t, keys...)
				axiomText[a.Name] = t
			} else {
				e.d.axiom(t)
			}
		}()
	}
}

// workBase: where solver scripts (work/) and replay files (replays/) go
var workBase string

func report(e *Engine, prop, tier string, seed int, verif string, results []*FuncResult, update, verbose bool, t0 time.Time, solveWall float64, noEvidence bool, partial bool) int {
	obs := map[string]*ObStatus{}
	var order []string
	funcErrs := map[string]string{}
	canaryOK := map[string]bool{}
	canarySeen := map[string]bool{}
	var vacuous []string
	backends := map[string]int{}
	solverTime := 0.0
	notes := map[string]bool{}
	nQueries := 0
	for _, r := range results {
		if r.Err != "" {
			funcErrs[r.Key] = r.Err
		}
		for _, n := range r.Notes {
			notes[n] = true
		}
		for _, q := range r.Queries {
			nQueries++
			solverTime += q.Time
			if q.Status == "disagree" {
				fmt.Fprintf(os.Stderr, "solver disagreement on %s (%s)\n", q.Ob.Name, q.Backend)
				return 2
			}
			if q.Ob.Class == "canary" {
				// per kind of location (returns / each loop body / early cuts): at least one path reaching it must be consistent
				ck := r.Key + "|" + q.Ob.Detail
				if verbose {
					fmt.Fprintf(os.Stderr, "  canary %s path=%d status=%s backend=%s t=%.2fs\n", ck, q.PathID, q.Status, q.Backend, q.Time)
				}
				canarySeen[ck] = true
				if q.Status != "unsat" {
					canaryOK[ck] = true
				}
				continue
			}
			if q.Ob.Class == "requires-sat" {
				if q.Status == "unsat" {
					vacuous = append(vacuous, r.Key+": contradictory precondition")
				}
				continue
			}
			o, ok := obs[q.Ob.Name]
			if !ok {
				o = &ObStatus{Name: q.Ob.Name, Class: q.Ob.Class, Func: r.Key, Status: "discharged", Backend: map[string]int{}, Pos: q.Ob.Pos, Detail: q.Ob.Detail}
				obs[q.Ob.Name] = o
				order = append(order, q.Ob.Name)
			}
			o.Queries++
			o.Time += q.Time
			if q.Time > o.MaxTime {
				o.MaxTime = q.Time
			}
			o.Backend[q.Backend]++
			backends[q.Backend]++
			switch q.Status {
			case "unsat":
			case "sat":
				if o.Status != "sat" {
					o.Status = "sat"
					o.Model = q.Model
					o.Script = q.ScriptFile
				}
			default:
				if o.Status == "discharged" {
					o.Status = "unknown"
					o.Model = q.Model
					o.Script = q.ScriptFile
				}
			}
		}
	}
	// a function with a failed obligation assumes that obligation's goal afterwards: its paths may then well be
	// inconsistent, which says nothing about the contract (the failure itself is reported)
	failedFunc := map[string]bool{}
	for _, o := range obs {
		if o.Status != "discharged" {
			failedFunc[o.Func] = true
		}
	}
	for ck := range canarySeen {
		k := ck[:strings.Index(ck, "|")]
		where := ck[strings.Index(ck, "|")+1:]
		if !canaryOK[ck] && !failedFunc[shortKeyOf(k)] && !failedFunc[k] {
			vacuous = append(vacuous, k+": canary proved on every path reaching "+where+" (inconsistent assumptions)")
		}
	}
	sort.Strings(vacuous)
	sort.Strings(order)

	// expected + known findings
	var exp Expected
	expFile := filepath.Join(verif, "expected", prop+".json")
	if b, err := os.ReadFile(expFile); err == nil {
		json.Unmarshal(b, &exp)
	}
	undecided := map[string]bool{}
	for _, n := range exp.Undecided {
		undecided[n] = true
	}
	expDis := map[string]bool{}
	for _, n := range exp.Discharged {
		expDis[n] = true
	}
	var kfs []KnownFinding
	if b, err := os.ReadFile(filepath.Join(verif, "known_findings.json")); err == nil {
		json.Unmarshal(b, &kfs)
	}
	known := map[string]KnownFinding{}
	for _, k := range kfs {
		if k.Property == prop && k.Status == "open" {
			known[k.Obligation] = k
		}
	}

	if update && !partial {
		var ne Expected
		for _, n := range order {
			o := obs[n]
			if o.Status == "discharged" {
				ne.Discharged = append(ne.Discharged, n)
			} else if _, isKnown := known[n]; !isKnown {
				// only obligations ALREADY recorded as undecided stay so; a new failure is a violation, not a new entry
				// (set VERIF_ALLOW_UNDECIDED=1 to record one deliberately)
				if undecided[n] || os.Getenv("VERIF_ALLOW_UNDECIDED") != "" {
					ne.Undecided = append(ne.Undecided, n)
				} else {
					fmt.Fprintf(os.Stderr, "-update refused: %s is not discharged (fix it, or record it deliberately with VERIF_ALLOW_UNDECIDED=1)\n", n)
					update = false
				}
			}
		}
	}
	if update && !partial {
		var ne Expected
		for _, n := range order {
			o := obs[n]
			if o.Status == "discharged" {
				ne.Discharged = append(ne.Discharged, n)
			} else if _, isKnown := known[n]; !isKnown {
				ne.Undecided = append(ne.Undecided, n)
			}
		}
		os.MkdirAll(filepath.Dir(expFile), 0o755)
		b, _ := json.MarshalIndent(ne, "", " ")
		os.WriteFile(expFile, b, 0o644)
		exp = ne
		undecided = map[string]bool{}
		for _, n := range ne.Undecided {
			undecided[n] = true
		}
	}

	exit := 0
	var undecidable []*ObStatus
	if len(funcErrs) > 0 {
		// A function under contract whose contract can no longer be applied to the code (identifier gone,
		// construct outside the subset, path budget exceeded): the verified argument for the property no longer
		// covers the code. Reported as a violation without a failing input (conservative), never as a pass.
		for _, k := range sortedKeys(funcErrs) {
			fmt.Fprintf(os.Stderr, "cannot decide %s: %s\n", k, funcErrs[k])
			undecidable = append(undecidable, &ObStatus{Name: k + "/contract-applies", Class: "contract-applies", Func: k, Status: "unknown",
				Model: "the contract of " + k + " cannot be checked against the current code: " + funcErrs[k], Detail: funcErrs[k]})
		}
		if os.Getenv("VERIF_STRICT_ERRORS") != "" {
			exit = 2
		}
	}
	if len(vacuous) > 0 {
		for _, v := range vacuous {
			fmt.Fprintln(os.Stderr, "vacuity guard:", v)
		}
		exit = 2
	}
	// obligation-count guard
	if !partial && len(exp.Discharged) > 0 && exit == 0 {
		missing := 0
		for _, n := range exp.Discharged {
			if _, ok := obs[n]; !ok {
				missing++
			}
		}
		anyFailed := false
		for _, o := range obs {
			if o.Status != "discharged" {
				anyFailed = true
			}
		}
		// (after a failed obligation the rest of its paths is cut: fewer obligations are then expected, and the failure is reported)
		if len(order) < len(exp.Discharged)/2 && !anyFailed && len(funcErrs) == 0 {
			fmt.Fprintf(os.Stderr, "obligation count collapsed: %d generated, %d expected\n", len(order), len(exp.Discharged))
			exit = 2
		}
	}

	nDis, nKnown, nUndecided := 0, 0, 0
	var violations []*ObStatus
	var samples []map[string]interface{}
	var undecidedList, knownList []string
	for _, n := range order {
		o := obs[n]
		if o.Status == "discharged" {
			nDis++
			if len(samples) < 6 && o.Class != "safety:nil" {
				samples = append(samples, map[string]interface{}{"obligation": o.Name, "answer": "unsat", "queries": o.Queries, "where": fmt.Sprintf("%s:%d", filepath.Base(o.Pos.Filename), o.Pos.Line)})
			}
			continue
		}
		if k, ok := known[n]; ok {
			nKnown++
			knownList = append(knownList, n)
			fmt.Printf("KNOWN-FINDING: property=%s %s — %s\n", prop, n, k.What)
			continue
		}
		if undecided[n] {
			nUndecided++
			undecidedList = append(undecidedList, n)
			continue
		}
		violations = append(violations, o)
	}
	// findings that no longer fail are fine; nothing to print.

	violations = append(violations, undecidable...)
	replayDir := filepath.Join(workBase, "replays", prop)
	if len(violations) > 0 && exit != 2 {
		os.MkdirAll(replayDir, 0o755)
		for _, o := range violations {
			short := o.Name
			if i := strings.Index(short, "["); i >= 0 {
				short = short[:i]
			}
			rp := filepath.Join(replayDir, fmt.Sprintf("%s_%08x.json", sanitize(short), fnv32(o.Name)))
			suffix := ""
			replayed := tryReplay(e, verif, prop, o, rp)
			if !replayed {
				suffix = " no-failing-input-found"
			}
			fmt.Printf("VIOLATION property=%s replay=%s%s\n", prop, rp, suffix)
			fmt.Printf("  failed obligation: %s  [%s] at %s:%d  %s\n", o.Name, o.Status, o.Pos.Filename, o.Pos.Line, o.Detail)
		}
		exit = 1
	}
	if verbose {
		for _, n := range order {
			o := obs[n]
			fmt.Fprintf(os.Stderr, "  %-10s %s (%d q, %.2fs, slowest %.2fs)\n", o.Status, n, o.Queries, o.Time, o.MaxTime)
		}
	}

	// evidence
	wall := time.Since(t0).Seconds()
	var trusted []string
	for _, k := range sortedKeys(e.cs.Funcs) {
		fc := e.cs.Funcs[k]
		if fc.Used && (fc.Trusted) {
			trusted = append(trusted, "trusted contract (assumed, body not examined): "+fc.Key)
		}
		if fc.Used {
			for _, c := range fc.InvAssumed {
				trusted = append(trusted, "object invariant assumed at entry of "+fc.Key+" (established by the constructor, preserved by the type's methods, representation writers restricted structurally): "+c.Text)
			}
			if fc.FrameTrusted && !fc.Trusted {
				trusted = append(trusted, "assumed frame (assigns clause not checked against the body) of "+fc.Key)
			}
			for _, c := range fc.TrustedEnsures {
				trusted = append(trusted, "assumed postcondition of "+fc.Key+" (not checked against the body): "+c.Text)
			}
		}
	}
	for _, a := range e.cs.Axioms {
		if t, keyed := axiomText[a.Name]; keyed && !usedKeyed[t] {
			continue // constrains only spec functions that occur in no query of this run
		}
		if _, loaded := axiomText[a.Name]; !loaded && axiomSkipped[a.Name] {
			continue
		}
		trusted = append(trusted, "axiom "+a.Name+": "+a.C.Text)
	}
	for _, n := range sortedKeys(notes) {
		trusted = append(trusted, "note: "+n)
	}
	trusted = append(trusted,
		"signed integer arithmetic treated as mathematical (no overflow); unsigned arithmetic exact (mod 2^n)",
		"no concurrency modelled: mutexes are no-ops, `go` statements dropped, channel receives yield arbitrary values",
		"[]byte and string values are immutable byte strings (writes havoc contents, keep lengths)",
		"SMT solvers z3 5.1.0 / z3 4.8.12 / cvc5 1.0.3 and the VC generator in /verif/engine are trusted")
	var fnames []string
	for _, r := range results {
		fnames = append(fnames, r.Key)
	}
	total := len(order)
	cov := map[string]interface{}{
		"obligations":  total - nKnown - nUndecided,
		"discharged":   nDis,
		"checker_cmd":  fmt.Sprintf("./check %s %s", prop, tier),
		"trusted_base": trusted,
		"functions_under_contract": fnames,
		"queries":      nQueries,
		"backends":     backends,
		"solver_time_s": solverTime,
		"solve_wall_s": solveWall,
		"known_finding_obligations": knownList,
		"undecided":    undecidedList,
		"samples":      samples,
		"bounded":      []string{},
	}
	ev := map[string]interface{}{
		"property_id": prop,
		"tier":        tier,
		"seed":        seed,
		"level":       "proof",
		"coverage":    cov,
		"assumptions": assumptionsFor(prop, verif),
		"wall_s":      wall,
		"violations":  len(violations),
	}
	if !noEvidence && !partial {
		os.MkdirAll(filepath.Join(verif, "evidence"), 0o755)
		b, _ := json.MarshalIndent(ev, "", " ")
		os.WriteFile(filepath.Join(verif, "evidence", prop+".json"), b, 0o644)
	}
	fmt.Printf("property=%s tier=%s functions=%d obligations=%d discharged=%d known-findings=%d undecided=%d violations=%d queries=%d wall=%.1fs\n",
		prop, tier, len(results), total, nDis, nKnown, nUndecided, len(violations), nQueries, wall)
	return exit
}

func assumptionsFor(prop, verif string) []string {
	b, err := os.ReadFile(filepath.Join(verif, "assumptions", prop+".txt"))
	if err != nil {
		return []string{}
	}
	var out []string
	for _, l := range strings.Split(string(b), "\n") {
		if strings.TrimSpace(l) != "" {
			out = append(out, strings.TrimSpace(l))
		}
	}
	return out
}

// tryReplay writes the replay file (obligation, solver output) and, when a driver exists, replays the model
// on the real code. Returns true only when the failure was reproduced on the real code.
func tryReplay(e *Engine, verif, prop string, o *ObStatus, path string) bool {
	rec := map[string]interface{}{
		"property":   prop,
		"obligation": o.Name,
		"status":     o.Status,
		"where":      fmt.Sprintf("%s:%d", o.Pos.Filename, o.Pos.Line),
		"detail":     o.Detail,
		"solver_output": o.Model,
		"script":     o.Script,
	}
	reproduced := false
	if o.Status == "sat" {
		if ok, out, src, pkg := runReplayDriver(e, verif, prop, o); out != "" {
			rec["replay_output"] = out
			reproduced = ok
			if src != "" {
				// `./check replay <path>` re-runs this test against the current tree
				rec["replay_test"] = src
				rec["replay_pkg"] = pkg
				rec["replay_run"] = "TestVerifReplay"
			}
		}
	}
	rec["reproduced_on_real_code"] = reproduced
	b, _ := json.MarshalIndent(rec, "", " ")
	os.WriteFile(path, b, 0o644)
	return reproduced
}
