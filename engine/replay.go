package main

// runReplayDriver replays a solver model on the real code through a per-function driver
// (see /verif/replay). Returns (reproduced, output). Output "" means no driver exists.
func runReplayDriver(verif, prop string, o *ObStatus) (bool, string) {
	return false, ""
}
