package main

// Replay of a solver counterexample on the real code.
//
// For a failed *safety* obligation with a `sat` answer the solver's model describes an entry state (parameters and
// the heap they reach) in which the function panics. This file turns that model into an in-package Go test that
// builds the same objects (fields, slices, byte strings; what cannot be built - non-nil interfaces, maps, channels,
// functions - makes the replay give up), calls the real function and reports whether it panics. The test is run with
// `go test -overlay`, so nothing is written to /repo. The model is queried through an interactive solver session
// ((get-value ...) on the script that produced the `sat`), never parsed as a whole.

import (
	"bufio"
	"encoding/json"
	"fmt"
	"go/types"
	"io"
	"os"
	"os/exec"
	"path/filepath"
	"regexp"
	"sort"
	"strconv"
	"strings"
	"time"

	"golang.org/x/tools/go/ssa"
)

type replayGiveUp struct{ why string }

type modelSession struct {
	cmd *exec.Cmd
	in  io.WriteCloser
	out *bufio.Reader
}

func startModelSession(script string) (*modelSession, error) {
	b, err := os.ReadFile(script)
	if err != nil {
		return nil, err
	}
	var sb strings.Builder
	for _, l := range strings.Split(string(b), "\n") {
		t := strings.TrimSpace(l)
		if t == "(get-model)" || t == "(exit)" || strings.HasPrefix(t, "(get-value") {
			continue
		}
		sb.WriteString(l)
		sb.WriteString("\n")
	}
	cmd := exec.Command("z3-new", "-in", "-smt2", "-t:20000")
	in, _ := cmd.StdinPipe()
	outp, _ := cmd.StdoutPipe()
	cmd.Stderr = nil
	if err := cmd.Start(); err != nil {
		return nil, err
	}
	m := &modelSession{cmd: cmd, in: in, out: bufio.NewReader(outp)}
	io.WriteString(in, "(set-option :produce-models true)\n")
	io.WriteString(in, sb.String())
	// the script contains its own (check-sat); read answers until we see one
	deadline := time.Now().Add(40 * time.Second)
	for time.Now().Before(deadline) {
		line, err := m.out.ReadString('\n')
		if err != nil {
			m.close()
			return nil, fmt.Errorf("solver ended: %v", err)
		}
		t := strings.TrimSpace(line)
		if t == "sat" {
			return m, nil
		}
		if t == "unsat" || t == "unknown" || strings.HasPrefix(t, "(error") {
			m.close()
			return nil, fmt.Errorf("solver answered %s", t)
		}
	}
	m.close()
	return nil, fmt.Errorf("timeout")
}

func (m *modelSession) close() {
	if m.in != nil {
		io.WriteString(m.in, "(exit)\n")
		m.in.Close()
	}
	if m.cmd != nil && m.cmd.Process != nil {
		m.cmd.Process.Kill()
		m.cmd.Wait()
	}
}

// eval returns the model value of term as text.
func (m *modelSession) eval(term string) string {
	io.WriteString(m.in, "(get-value ("+term+"))\n")
	depth := 0
	var sb strings.Builder
	started := false
	for {
		r, _, err := m.out.ReadRune()
		if err != nil {
			panic(replayGiveUp{"solver session ended"})
		}
		if r == '(' {
			depth++
			started = true
		}
		if started {
			sb.WriteRune(r)
		}
		if r == ')' {
			depth--
			if started && depth == 0 {
				break
			}
		}
	}
	s := sb.String()
	if strings.HasPrefix(s, "(error") {
		panic(replayGiveUp{"get-value failed: " + s})
	}
	// ((term value)) -> value is the last top-level s-expression inside the inner list
	inner := strings.TrimSpace(s[1 : len(s)-1])
	inner = strings.TrimSpace(inner[1 : len(inner)-1])
	// scan from the end
	i := len(inner) - 1
	if inner[i] == ')' {
		d := 0
		for ; i >= 0; i-- {
			if inner[i] == ')' {
				d++
			} else if inner[i] == '(' {
				d--
				if d == 0 {
					break
				}
			}
		}
		return inner[i:]
	}
	for ; i >= 0 && inner[i] != ' ' && inner[i] != '\n'; i-- {
	}
	return inner[i+1:]
}

func (m *modelSession) evalInt(term string) int64 {
	v := strings.TrimSpace(m.eval(term))
	v = strings.ReplaceAll(v, "(- ", "-")
	v = strings.ReplaceAll(v, ")", "")
	v = strings.ReplaceAll(v, " ", "")
	n, err := strconv.ParseInt(v, 10, 64)
	if err != nil {
		panic(replayGiveUp{"integer outside int64 or not a numeral: " + v})
	}
	return n
}

type replayBuilder struct {
	e       *Engine
	m       *modelSession
	pkg     *types.Package
	decls   []string // object declarations
	assigns []string // field assignments
	objs    map[string]string // "ref|type" -> variable name
	imports map[string]string // path -> alias
	rnil    string
	inil    string
	n       int
	approx  []string
}

func (b *replayBuilder) qual(p *types.Package) string {
	if p == b.pkg {
		return ""
	}
	if a, ok := b.imports[p.Path()]; ok {
		return a
	}
	a := fmt.Sprintf("p%d_%s", len(b.imports), sanitize(p.Name()))
	b.imports[p.Path()] = a
	return a
}

func (b *replayBuilder) typeStr(t types.Type) string { return types.TypeString(t, b.qual) }

// settable: can a field of struct type owner be assigned from the test package?
func (b *replayBuilder) settable(owner types.Type, f *types.Var) bool {
	if f.Exported() {
		return true
	}
	return f.Pkg() == b.pkg
}

// value builds a Go expression for the value of SMT term `term` of Go type t.
func (b *replayBuilder) value(term string, t types.Type) string {
	switch u := t.Underlying().(type) {
	case *types.Basic:
		switch {
		case u.Info()&types.IsBoolean != 0:
			if strings.TrimSpace(b.m.eval(term)) == "true" {
				return "true"
			}
			return "false"
		case u.Info()&types.IsInteger != 0:
			n := b.m.evalInt(term)
			return fmt.Sprintf("%s(%d)", b.typeStr(t), n)
		case u.Info()&types.IsString != 0:
			return fmt.Sprintf("%s(%s)", b.typeStr(t), b.bytesLit(term))
		case u.Info()&types.IsFloat != 0:
			return b.typeStr(t) + "(0)"
		}
	case *types.Pointer:
		r := strings.TrimSpace(b.m.eval(term))
		if r == b.rnil {
			return "nil"
		}
		return b.object(term, r, u.Elem())
	case *types.Slice:
		if bt, ok := u.Elem().Underlying().(*types.Basic); ok && bt.Kind() == types.Uint8 {
			if strings.TrimSpace(b.m.eval("(bnilp "+term+")")) == "true" {
				return "nil"
			}
			return fmt.Sprintf("%s(%s)", b.typeStr(t), b.bytesLit(term))
		}
		arr := strings.TrimSpace(b.m.eval("(sarr " + term + ")"))
		ln := b.m.evalInt("(slen " + term + ")")
		if arr == b.rnil {
			return "nil"
		}
		if ln < 0 || ln > 256 {
			panic(replayGiveUp{fmt.Sprintf("slice of length %d", ln)})
		}
		if isStruct(u.Elem()) {
			panic(replayGiveUp{"slice of struct values"})
		}
		off := b.m.evalInt("(soff " + term + ")")
		eh := b.e.d.ElemHeapT(u.Elem())
		var els []string
		for i := int64(0); i < ln; i++ {
			els = append(els, b.value(fmt.Sprintf("(select (select %s (sarr %s)) %d)", eh, term, off+i), u.Elem()))
		}
		return fmt.Sprintf("%s{%s}", b.typeStr(t), strings.Join(els, ", "))
	case *types.Array:
		if isStruct(u.Elem()) || u.Len() > 64 {
			panic(replayGiveUp{"array of structs or long array"})
		}
		var els []string
		for i := int64(0); i < u.Len(); i++ {
			els = append(els, b.value(fmt.Sprintf("(select %s %d)", term, i), u.Elem()))
		}
		return fmt.Sprintf("%s{%s}", b.typeStr(t), strings.Join(els, ", "))
	case *types.Interface:
		if strings.TrimSpace(b.m.eval(term)) == b.inil {
			return "nil"
		}
		panic(replayGiveUp{"non-nil interface value (" + t.String() + ")"})
	case *types.Map, *types.Chan, *types.Signature:
		b.approx = append(b.approx, "nil "+t.String())
		return "nil"
	case *types.Struct:
		panic(replayGiveUp{"struct value of type " + t.String()})
	}
	panic(replayGiveUp{"unsupported type " + t.String()})
}

func (b *replayBuilder) bytesLit(term string) string {
	ln := b.m.evalInt("(blen " + term + ")")
	if ln < 0 || ln > 4096 {
		panic(replayGiveUp{fmt.Sprintf("byte string of length %d", ln)})
	}
	var sb strings.Builder
	sb.WriteString("\"")
	for i := int64(0); i < ln; i++ {
		v := b.m.evalInt(fmt.Sprintf("(bat %s %d)", term, i))
		sb.WriteString(fmt.Sprintf("\\x%02x", byte(v)))
	}
	sb.WriteString("\"")
	return sb.String()
}

// object returns the name of the Go variable holding the object at ref r (of struct type t), creating it on first use.
// rterm is an SMT term denoting the reference, rval its value in the model (used as identity only).
func (b *replayBuilder) object(rterm, rval string, t types.Type) string {
	r := rterm
	key := rval + "|" + t.String()
	if n, ok := b.objs[key]; ok {
		return n
	}
	if !isStruct(t) {
		// pointer to a scalar / array: a fresh box with the model value
		b.n++
		name := fmt.Sprintf("o%d", b.n)
		b.objs[key] = name
		if isArray(t) {
			panic(replayGiveUp{"pointer to array"})
		}
		box := b.e.d.BoxHeap(b.e.d.SortOf(t))
		b.decls = append(b.decls, fmt.Sprintf("%s := new(%s)", name, b.typeStr(t)))
		b.assigns = append(b.assigns, fmt.Sprintf("*%s = %s", name, b.value(fmt.Sprintf("(select %s %s)", box, r), t)))
		return name
	}
	b.n++
	if b.n > 200 {
		panic(replayGiveUp{"more than 200 objects"})
	}
	name := fmt.Sprintf("o%d", b.n)
	b.objs[key] = name
	b.decls = append(b.decls, fmt.Sprintf("%s := new(%s)", name, b.typeStr(t)))
	b.fields(name, r, t)
	return name
}

// fields assigns the fields of the struct (of type t) stored at ref r into the Go lvalue lv.
func (b *replayBuilder) fields(lv, r string, t types.Type) {
	st := t.Underlying().(*types.Struct)
	for i := 0; i < st.NumFields(); i++ {
		f := st.Field(i)
		if f.Name() == "_" {
			continue
		}
		if isStruct(f.Type()) {
			if !b.settable(t, f) {
				continue // e.g. sync.Mutex internals: zero value
			}
			if named, ok := f.Type().(*types.Named); ok && named.Obj().Pkg() != nil && (named.Obj().Pkg().Path() == "sync" || named.Obj().Pkg().Path() == "time") {
				continue
			}
			sub := fmt.Sprintf("(%s %s)", b.e.d.SubRef(t, i), r)
			b.fields(lv+"."+f.Name(), sub, f.Type())
			continue
		}
		if !b.settable(t, f) {
			continue
		}
		h, _ := b.e.d.FieldHeap(t, i)
		v := b.value(fmt.Sprintf("(select %s %s)", h, r), f.Type())
		b.assigns = append(b.assigns, fmt.Sprintf("%s.%s = %s", lv, f.Name(), v))
	}
}

var reInParam = regexp.MustCompile(`\(declare-const (in_[A-Za-z0-9_]+![0-9]+) `)

// runReplayDriver replays a solver model on the real code. Returns (reproduced, output). Output "" means no replay
// was possible (the caller then reports no-failing-input-found).
func runReplayDriver(e *Engine, verif, prop string, o *ObStatus) (reproduced bool, output string, testSrc string, pkgDir string) {
	if !strings.HasPrefix(o.Class, "safety") || o.Script == "" {
		return false, "", "", ""
	}
	var fn *ssa.Function
	for k, f := range e.fnByKey {
		if shortKeyOf(k) == o.Func || k == o.Func {
			fn = f
			break
		}
	}
	if fn == nil || fn.Pkg == nil || fn.Parent() != nil {
		return false, "", "", ""
	}
	defer func() {
		if r := recover(); r != nil {
			if g, ok := r.(replayGiveUp); ok {
				reproduced, output, testSrc, pkgDir = false, "replay not possible: "+g.why, "", ""
				return
			}
			reproduced, output, testSrc, pkgDir = false, fmt.Sprintf("replay not possible: %v", r), "", ""
		}
	}()
	// use the z3 flavour of the script (the first definitive answer may have come from another back end)
	script := o.Script
	for _, suf := range []string{".cvc5-1.0.3.smt2", ".z3-4.8.12.smt2"} {
		if strings.HasSuffix(script, suf) {
			alt := strings.TrimSuffix(script, suf) + ".z3-5.1.0.smt2"
			if _, err := os.Stat(alt); err == nil {
				script = alt
			}
		}
	}
	sb, err := os.ReadFile(script)
	if err != nil {
		return false, "", "", ""
	}
	params := map[string]string{}
	for _, m := range reInParam.FindAllStringSubmatch(string(sb), -1) {
		name := m[1][3:strings.LastIndex(m[1], "!")]
		if _, dup := params[name]; !dup {
			params[name] = m[1]
		}
	}
	ms, err := startModelSession(script)
	if err != nil {
		return false, "replay not possible: " + err.Error(), "", ""
	}
	defer ms.close()
	b := &replayBuilder{e: e, m: ms, pkg: fn.Pkg.Pkg, objs: map[string]string{}, imports: map[string]string{}}
	b.rnil = strings.TrimSpace(ms.eval("rnil"))
	b.inil = strings.TrimSpace(ms.eval("inil"))
	var args []string
	recv := ""
	for i, p := range fn.Params {
		sym, ok := params[p.Name()]
		if !ok {
			panic(replayGiveUp{"parameter " + p.Name() + " not found in the script"})
		}
		v := b.value(sym, p.Type())
		if i == 0 && fn.Signature.Recv() != nil {
			recv = v
			continue
		}
		args = append(args, v)
	}
	call := fn.Name() + "(" + strings.Join(args, ", ") + ")"
	if recv != "" {
		if recv == "nil" {
			recv = "(" + b.typeStr(fn.Params[0].Type()) + ")(nil)"
		}
		call = "(" + recv + ")." + call
	}
	var src strings.Builder
	src.WriteString("package " + fn.Pkg.Pkg.Name() + "\n\n// generated by /verif/engine (replay of a solver counterexample); obligation: " + o.Name + "\n\nimport (\n\t\"testing\"\n")
	var ips []string
	for p := range b.imports {
		ips = append(ips, p)
	}
	sort.Strings(ips)
	for _, p := range ips {
		src.WriteString(fmt.Sprintf("\t%s %q\n", b.imports[p], p))
	}
	src.WriteString(")\n\nfunc TestVerifReplay(t *testing.T) {\n")
	for _, d := range b.decls {
		src.WriteString("\t" + d + "\n")
	}
	for _, a := range b.assigns {
		src.WriteString("\t" + a + "\n")
	}
	for _, d := range b.decls {
		// silence "declared and not used"
		src.WriteString("\t_ = " + strings.SplitN(d, " ", 2)[0] + "\n")
	}
	src.WriteString("\tdefer func() {\n\t\tif r := recover(); r != nil {\n\t\t\tt.Fatalf(\"REPRODUCED: the real code panics on the solver's input: %v\", r)\n\t\t}\n\t}()\n")
	src.WriteString("\t" + call + "\n}\n")
	testSrc = src.String()
	pkgDir = strings.TrimPrefix(fn.Pkg.Pkg.Path(), strings.TrimSuffix(modPrefix, "/"))
	pkgDir = strings.TrimPrefix(pkgDir, "/")
	out, rc := runOverlayTest(e.repoDir, pkgDir, testSrc)
	if rc != 0 && strings.Contains(out, "REPRODUCED") {
		return true, out, testSrc, pkgDir
	}
	if rc != 0 && strings.Contains(out, "panic:") {
		return true, out, testSrc, pkgDir
	}
	note := ""
	if len(b.approx) > 0 {
		note = " (approximated: " + strings.Join(b.approx, ", ") + ")"
	}
	return false, "replay ran but did not panic" + note + ":\n" + out, testSrc, pkgDir
}

func shortKeyOf(k string) string {
	k = strings.ReplaceAll(k, "gemmill/modules/", "")
	k = strings.ReplaceAll(k, "gemmill/consensus/", "")
	k = strings.ReplaceAll(k, "gemmill/", "")
	k = strings.ReplaceAll(k, "chain/app/", "")
	return k
}

func runOverlayTest(repo, pkgDir, src string) (string, int) {
	d, err := os.MkdirTemp("", "verif_replay_")
	if err != nil {
		return err.Error(), 2
	}
	defer os.RemoveAll(d)
	tf := filepath.Join(d, "zz_verif_replay_test.go")
	os.WriteFile(tf, []byte(src), 0o644)
	ov := filepath.Join(d, "ov.json")
	ovb, _ := json.Marshal(map[string]map[string]string{"Replace": {filepath.Join(repo, pkgDir, "zz_verif_replay_test.go"): tf}})
	os.WriteFile(ov, ovb, 0o644)
	cmd := exec.Command("go", "test", "-overlay", ov, "-vet=off", "-count=1", "-timeout", "60s", "-run", "TestVerifReplay", "./"+pkgDir)
	cmd.Dir = repo
	cmd.Env = append(os.Environ(), "GOFLAGS=-mod=mod", "GOPROXY=off", "GOSUMDB=off", "GOTOOLCHAIN=local")
	out, err := cmd.CombinedOutput()
	rc := 0
	if err != nil {
		rc = 1
	}
	s := string(out)
	if len(s) > 3000 {
		s = s[len(s)-3000:]
	}
	return s, rc
}
