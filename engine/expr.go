package main

// Evaluation of contract expressions (Go expression syntax + spec forms) to SMT terms.

import (
	"fmt"
	"go/ast"
	"go/constant"
	"go/token"
	"go/types"
	"strconv"
	"strings"

	"golang.org/x/tools/go/ssa"
)

type Env struct {
	e      *Engine
	st     *State
	old    *Snapshot
	inOld  bool
	vars   map[string]Val
	frame  *Frame
	pkg    *types.Package
	clause *Clause
	header *ssa.BasicBlock // loop header for $i
	depth  int
	lets   map[string]*Clause
	preferCells bool // loop invariants / call-site clauses: a parameter name means the CURRENT value of its cell
	calleeCalls map[string]string // evaluating a CALLEE's postcondition at a call site: its call counters are unknown to the caller (fresh values)
}

type evalErr struct{ msg string }

func (env *Env) fail(format string, args ...interface{}) {
	loc := ""
	if env.clause != nil {
		loc = fmt.Sprintf("%s:%d: in %q: ", env.clause.File, env.clause.Line, env.clause.Text)
	}
	panic(contractErr{loc + fmt.Sprintf(format, args...)})
}

type contractErr struct{ msg string }

func (c contractErr) Error() string { return "contract error: " + c.msg }

func (env *Env) heapGet(name string) string {
	if env.inOld && env.old != nil {
		if t, ok := env.old.heap[name]; ok {
			return t
		}
		return name
	}
	return env.st.heapGet(name)
}

func (env *Env) alive() string {
	if env.inOld && env.old != nil {
		return env.old.alive
	}
	return env.st.alive
}

func (env *Env) cell(id int) Val {
	if env.inOld && env.old != nil {
		if v, ok := env.old.cells[id]; ok {
			return v
		}
	}
	v, ok := env.st.cells[id]
	if !ok {
		env.fail("cell not available")
	}
	return v
}

var nilVal = Val{K: KUnit, T: "nil"}

func (e *Engine) evalBool(env *Env, c Clause) string {
	env.clause = &c
	v := env.eval(c.Expr)
	if v.S != SBool {
		env.fail("clause is not boolean (sort %s)", v.S)
	}
	return v.T
}

func (env *Env) sub(vars map[string]Val) *Env {
	n := *env
	n.vars = copyMap(env.vars)
	for k, v := range vars {
		n.vars[k] = v
	}
	return &n
}

func (env *Env) eval(x ast.Expr) Val {
	e := env.e
	switch x := x.(type) {
	case *ast.ParenExpr:
		return env.eval(x.X)
	case *ast.BasicLit:
		switch x.Kind {
		case token.INT:
			return term(x.Value, SInt, types.Typ[types.Int])
		case token.STRING:
			s, _ := strconv.Unquote(x.Value)
			return e.stringConst(s, types.Typ[types.String])
		case token.CHAR:
			s, _ := strconv.Unquote(x.Value)
			return term(fmt.Sprintf("%d", []rune(s)[0]), SInt, types.Typ[types.Int])
		}
		env.fail("literal %s", x.Value)
	case *ast.Ident:
		return env.ident(x.Name)
	case *ast.UnaryExpr:
		v := env.eval(x.X)
		switch x.Op {
		case token.NOT:
			return term(not(v.T), SBool, v.Typ)
		case token.SUB:
			return term("(- "+v.T+")", SInt, v.Typ)
		case token.AND:
			return v // &x.f on struct field by value: interior ref already
		}
		env.fail("unary %s", x.Op)
	case *ast.StarExpr:
		v := env.eval(x.X)
		return env.deref(v)
	case *ast.BinaryExpr:
		return env.binary(x)
	case *ast.SelectorExpr:
		// package-qualified constant?
		if id, ok := x.X.(*ast.Ident); ok {
			if _, bound := env.vars[id.Name]; !bound && env.frame != nil {
				if _, isCell := env.frame.cellByName[id.Name]; !isCell {
					if p := env.importedPkg(id.Name); p != nil {
						return env.pkgObject(p, x.Sel.Name)
					}
				}
			} else if !bound && env.frame == nil {
				if p := env.importedPkg(id.Name); p != nil {
					return env.pkgObject(p, x.Sel.Name)
				}
			}
		}
		v := env.eval(x.X)
		return env.selectField(v, x.Sel.Name)
	case *ast.IndexExpr:
		v := env.eval(x.X)
		i := env.eval(x.Index)
		return env.index(v, i)
	case *ast.SliceExpr:
		v := env.eval(x.X)
		lo, hi := "0", ""
		if x.Low != nil {
			lo = env.eval(x.Low).T
		}
		if x.High != nil {
			hi = env.eval(x.High).T
		}
		switch v.S {
		case SBytes:
			if hi == "" {
				hi = app("blen", v.T)
			}
			return term(e.mkBslice(env.st, v.T, lo, hi), SBytes, v.Typ)
		case SSlice:
			if hi == "" {
				hi = app("slen", v.T)
			}
			return term(fmt.Sprintf("(mkslice (sarr %s) (+ (soff %s) %s) (- %s %s) (- (scap %s) %s))", v.T, v.T, lo, hi, lo, v.T, lo), SSlice, v.Typ)
		}
		env.fail("slice expression on sort %s", v.S)
	case *ast.CallExpr:
		return env.call(x)
	}
	env.fail("unsupported expression %T", x)
	return Val{}
}

func (env *Env) importedPkg(name string) *types.Package {
	if env.pkg == nil {
		return nil
	}
	for _, imp := range env.pkg.Imports() {
		if imp.Name() == name {
			return imp
		}
	}
	// alias names used in the source files are not visible here; try last path element match among all packages
	for path, sp := range env.e.pkgByPath {
		_ = path
		if sp.Pkg.Name() == name {
			// only if imported by env.pkg
			for _, imp := range env.pkg.Imports() {
				if imp == sp.Pkg {
					return imp
				}
			}
		}
	}
	// well-known aliases in this repo
	if p, ok := pkgAliases[name]; ok {
		if sp, ok := env.e.pkgByPath[p]; ok {
			return sp.Pkg
		}
	}
	return nil
}

// pkgAliases: import aliases used throughout the repository (and in contracts) for packages whose names clash.
var pkgAliases = map[string]string{"rtypes": "chain/types", "etypes": "eth/core/types", "estate": "eth/core/state", "agtypes": "gemmill/types",
	"gcmn": "gemmill/modules/go-common", "merkle": "gemmill/modules/go-merkle", "gcrypto": "gemmill/go-crypto", "wire": "gemmill/go-wire",
	"gtypes": "gemmill/types", "sm": "gemmill/state", "dbm": "gemmill/modules/go-db", "ecommon": "eth/common", "ecore": "eth/core", "evmapp": "chain/app/evm"}

func (env *Env) pkgObject(p *types.Package, name string) Val {
	obj := p.Scope().Lookup(name)
	if obj == nil {
		env.fail("%s.%s not found", p.Name(), name)
	}
	return env.object(obj)
}

func (env *Env) object(obj types.Object) Val {
	e := env.e
	switch o := obj.(type) {
	case *types.Const:
		t := o.Type()
		switch o.Val().Kind() {
		case constant.Int:
			s := o.Val().ExactString()
			if strings.HasPrefix(s, "-") {
				s = "(- " + s[1:] + ")"
			}
			return term(s, SInt, t)
		case constant.Bool:
			if constant.BoolVal(o.Val()) {
				return term("true", SBool, t)
			}
			return term("false", SBool, t)
		case constant.String:
			return e.stringConst(constant.StringVal(o.Val()), t)
		}
	case *types.Var:
		// package-level variable
		sp := e.prog.Package(o.Pkg())
		if sp != nil {
			if g, ok := sp.Members[o.Name()].(*ssa.Global); ok {
				if env.inOld && env.old != nil {
					if v, ok := env.old.globals[g.String()]; ok {
						return v
					}
					saved := env.st.globals
					env.st.globals = env.old.globals
					v := e.loadGlobal(env.st, g)
					env.st.globals = saved
					return v
				}
				return e.loadGlobal(env.st, g)
			}
		}
	}
	env.fail("cannot use object %s in a contract", obj.Name())
	return Val{}
}

func (env *Env) ident(name string) Val {
	e := env.e
	switch name {
	case "true":
		return term("true", SBool, types.Typ[types.Bool])
	case "false":
		return term("false", SBool, types.Typ[types.Bool])
	case "nil":
		return nilVal
	case "iter__":
		if env.header == nil {
			env.fail("$i outside a loop invariant")
		}
		if u, ok := env.header.Instrs[0].(*ssa.UnOp); ok {
			if a, ok := u.X.(*ssa.Alloc); ok && a.Comment == "rangeindex" {
				cv := env.frame.regs[a]
				c := env.cell(cv.Cell)
				return term(fmt.Sprintf("(+ %s 1)", c.T), SInt, types.Typ[types.Int])
			}
		}
		env.fail("$i: loop is not a range-index loop")
	}
	if v, ok := env.vars[name]; ok {
		return v
	}
	if c, ok := env.lets[name]; ok {
		if env.depth > 30 {
			env.fail("let recursion")
		}
		n := *env
		n.depth = env.depth + 1
		return n.eval(c.Expr)
	}
	if env.frame != nil {
		if env.preferCells && !env.inOld {
			if id, ok := env.frame.cellByName[name]; ok && id >= 0 {
				if _, have := env.st.cells[id]; have {
					return env.cell(id)
				}
			}
		}
		if v, ok := env.frame.params[name]; ok {
			return v
		}
		if id, ok := env.frame.cellByName[name]; ok && id >= 0 {
			return env.cell(id)
		}
	}
	if g, ok := e.cs.Ghosts[name]; ok {
		return env.ghost(g)
	}
	if env.pkg != nil {
		if obj := env.pkg.Scope().Lookup(name); obj != nil {
			return env.object(obj)
		}
	}
	env.fail("unknown identifier %q", name)
	return Val{}
}

func (env *Env) ghost(g *GhostVar) Val {
	if env.inOld && env.old != nil {
		if v, ok := env.old.ghost[g.Name]; ok {
			return v
		}
	} else if v, ok := env.st.ghost[g.Name]; ok {
		return v
	}
	s, typ := env.e.specSort(g.Sort, env.pkg)
	name := "ghost_" + g.Name
	env.e.d.konst(name, s)
	return term(name, s, typ)
}

func (env *Env) deref(v Val) Val {
	e := env.e
	switch v.K {
	case KCell:
		return env.cell(v.Cell)
	case KTerm:
		pt, ok := v.Typ.Underlying().(*types.Pointer)
		if !ok {
			env.fail("deref of non-pointer")
		}
		et := pt.Elem()
		if isStruct(et) {
			return term(env.loadStruct(v.T, et), e.d.SortOf(et), et)
		}
		s := e.d.SortOf(et)
		if isArray(et) {
			return term(sel(env.heapGet(e.d.ElemHeapT(elemType(et))), v.T), s, et)
		}
		return term(sel(env.heapGet(e.d.BoxHeap(s)), v.T), s, et)
	case KField:
		et := elemType(v.Typ)
		return term(sel(env.heapGet(v.Heap), v.Base), e.d.SortOf(et), et)
	case KElem:
		et := elemType(v.Typ)
		return term(sel(sel(env.heapGet(v.Heap), v.Base), v.Idx), e.d.SortOf(et), et)
	case KGlobal:
		return e.loadGlobal(env.st, v.G)
	}
	env.fail("cannot dereference value of kind %d", v.K)
	return Val{}
}

func (env *Env) loadStruct(r string, t types.Type) string {
	e := env.e
	si := e.d.StructOf(t)
	if len(si.Fields) == 0 {
		return "mk_" + si.Name
	}
	var parts []string
	for i := 0; i < si.T.NumFields(); i++ {
		ft := si.T.Field(i).Type()
		if isStruct(ft) {
			parts = append(parts, env.loadStruct(e.mkSub(env.st, t, i, r), ft))
		} else {
			h, _ := e.d.FieldHeap(t, i)
			parts = append(parts, sel(env.heapGet(h), r))
		}
	}
	return fmt.Sprintf("(mk_%s %s)", si.Name, strings.Join(parts, " "))
}

// selectField handles x.f for pointers to structs and struct values, with embedded-field promotion.
func (env *Env) selectField(v Val, name string) Val {
	e := env.e
	if v.Typ == nil {
		env.fail("selector .%s on untyped spec value", name)
	}
	t := v.Typ
	obj, path, _ := types.LookupFieldOrMethod(t, true, nil, name)
	if obj == nil && env.pkg != nil {
		obj, path, _ = types.LookupFieldOrMethod(t, true, env.pkg, name)
	}
	if obj == nil {
		// unexported field of another package: search manually
		obj, path = lookupFieldAnyPkg(t, name)
	}
	if _, ok := obj.(*types.Var); !ok || obj == nil {
		env.fail("no field %s in %s", name, t)
	}
	cur := v
	for _, idx := range path {
		cur = env.fieldByIndex(cur, idx)
	}
	_ = e
	return cur
}

func lookupFieldAnyPkg(t types.Type, name string) (types.Object, []int) {
	if p, ok := t.Underlying().(*types.Pointer); ok {
		t = p.Elem()
	}
	st, ok := t.Underlying().(*types.Struct)
	if !ok {
		return nil, nil
	}
	for i := 0; i < st.NumFields(); i++ {
		if st.Field(i).Name() == name {
			return st.Field(i), []int{i}
		}
	}
	for i := 0; i < st.NumFields(); i++ {
		if st.Field(i).Embedded() {
			if o, p := lookupFieldAnyPkg(st.Field(i).Type(), name); o != nil {
				return o, append([]int{i}, p...)
			}
		}
	}
	return nil, nil
}

func (env *Env) fieldByIndex(v Val, idx int) Val {
	e := env.e
	switch u := v.Typ.Underlying().(type) {
	case *types.Pointer:
		stt := u.Elem()
		s := stt.Underlying().(*types.Struct)
		ft := s.Field(idx).Type()
		if v.K != KTerm {
			env.fail("field of non-term pointer")
		}
		if isStruct(ft) {
			// interior struct: represent as pointer to it (auto-deref on further selection)
			return term(e.mkSub(env.st, stt, idx, v.T), SRef, ptrMarker{types.NewPointer(ft)})
		}
		h, fs := e.d.FieldHeap(stt, idx)
		return env.typedFrom(term(sel(env.heapGet(h), v.T), fs, ft), h, v.T)
	case *types.Struct:
		si := e.d.StructOf(v.Typ)
		ft := u.Field(idx).Type()
		return term(app(si.Fields[idx], v.T), e.d.SortOf(ft), ft)
	}
	if pm, ok := v.Typ.(ptrMarker); ok {
		return env.fieldByIndex(term(v.T, SRef, pm.Pointer), idx)
	}
	env.fail("field selection on %s", v.Typ)
	return Val{}
}

// ptrMarker marks an interior-struct reference produced by selecting a struct-typed field through a pointer:
// as a value it stands for the struct (materialised on demand), for further selection it behaves as a pointer.
type ptrMarker struct{ *types.Pointer }

// typed adds the type invariants of a value read from memory inside a contract expression
// (slice header well-formedness, byte-string facts, unsigned ranges). Skipped under binders.
// typedFrom: like typed, and for references read from heap array h also the fact that they were allocated
// before that heap version was created (needed to separate them from objects allocated later).
func (env *Env) typedFrom(v Val, h string, base string) Val {
	v = env.typed(v)
	if v.K != KTerm || env.st == nil || hasBound(v.T) || v.S != SRef {
		return v
	}
	bound := env.st.loadBound(h, base)
	if env.inOld && env.old != nil {
		if _, changed := env.old.heap[h]; !changed {
			// (only for base objects that existed at entry; a younger base can hold references up to the old state's time)
			bound = fmt.Sprintf("(ite (< (stamp %s) now0) now0 %s)", base, env.old.alive)
		} else {
			bound = env.old.alive
		}
	}
	env.e.fact(env.st, "alive:"+v.T+"@"+bound, fmt.Sprintf("(or (= %s rnil) (< (stamp %s) %s))", v.T, v.T, bound))
	return v
}

func (env *Env) typed(v Val) Val {
	if v.K != KTerm || env.st == nil || hasBound(v.T) {
		return v
	}
	switch v.S {
	case SSlice:
		env.e.fact(env.st, "slice:"+v.T, fmt.Sprintf("(and (<= 0 (soff %s)) (<= 0 (slen %s)) (<= (slen %s) (scap %s)) (=> (= (sarr %s) rnil) (= (scap %s) 0)))", v.T, v.T, v.T, v.T, v.T, v.T))
	case SBytes:
		env.e.bytesFacts(env.st, v.T)
	case SInt:
		if v.Typ != nil {
			if mx, ok := uintMax(v.Typ); ok {
				env.e.fact(env.st, "urange:"+v.T, fmt.Sprintf("(and (<= 0 %s) (<= %s %s))", v.T, v.T, mx))
			}
		}
	}
	return v
}

func (env *Env) materialize(v Val) Val {
	if pm, ok := v.Typ.(ptrMarker); ok {
		et := pm.Pointer.Elem()
		return term(env.loadStruct(v.T, et), env.e.d.SortOf(et), et)
	}
	return v
}

func (env *Env) index(v, i Val) Val {
	e := env.e
	v = env.materialize(v)
	switch v.S {
	case SBytes:
		return term(e.mkBat(env.st, v.T, i.T), SInt, types.Typ[types.Uint8])
	case SSlice:
		var et types.Type
		if v.Typ != nil {
			et = elemType(v.Typ)
		} else {
			env.fail("index of untyped slice")
		}
		idx := fmt.Sprintf("(sidx %s %s)", v.T, i.T)
		if isStruct(et) {
			return term(e.mkERef(env.st, et, app("sarr", v.T), idx), SRef, ptrMarker{types.NewPointer(et)})
		}
		es := e.d.SortOf(et)
		return env.typed(term(sel(sel(env.heapGet(e.d.ElemHeapT(et)), app("sarr", v.T)), idx), es, et))
	case SRef:
		if v.Typ != nil {
			if mt, ok := v.Typ.Underlying().(*types.Map); ok {
				vs := e.d.SortOf(mt.Elem())
				_, val, _ := e.d.MapHeaps(e.mapKeySort(mt), vs)
				dom, _, _ := e.d.MapHeaps(e.mapKeySort(mt), vs)
				kt := e.mapKey(mt, i)
				present := and(not(eq(v.T, "rnil")), sel(sel(env.heapGet(dom), v.T), kt))
				return term(fmt.Sprintf("(ite %s %s %s)", present, sel(sel(env.heapGet(val), v.T), kt), e.d.Zero(vs, mt.Elem())), vs, mt.Elem())
			}
			if pt, ok := v.Typ.Underlying().(*types.Pointer); ok {
				if at, ok := pt.Elem().Underlying().(*types.Array); ok {
					es := e.d.SortOf(at.Elem())
					return term(sel(sel(env.heapGet(e.d.ElemHeapT(at.Elem())), v.T), i.T), es, at.Elem())
				}
			}
		}
	}
	if strings.HasPrefix(string(v.S), "(Array ") {
		var et types.Type
		if v.Typ != nil {
			if _, ok := v.Typ.Underlying().(*types.Array); ok {
				et = elemType(v.Typ)
			}
		}
		es := elemSortOfArray(v.S)
		return term(sel(v.T, i.T), es, et)
	}
	env.fail("cannot index sort %s", v.S)
	return Val{}
}

func (env *Env) eqTerms(a, b Val) string {
	a, b = env.materialize(a), env.materialize(b)
	isNil := func(v Val) bool { return v.K == KUnit && v.T == "nil" }
	nilOf := func(v Val) string {
		switch v.S {
		case SRef:
			return eq(v.T, "rnil")
		case SIface:
			return eq(v.T, "inil")
		case SBytes:
			return app("bnilp", v.T)
		case SSlice:
			return eq(app("sarr", v.T), "rnil")
		}
		env.fail("comparison of sort %s with nil", v.S)
		return ""
	}
	if isNil(a) && isNil(b) {
		return "true"
	}
	if isNil(b) {
		return nilOf(a)
	}
	if isNil(a) {
		return nilOf(b)
	}
	if a.S != b.S {
		env.fail("comparison of different sorts %s and %s", a.S, b.S)
	}
	if a.S == SBytes && a.Typ != nil && isString(a.Typ) {
		return app("beq", a.T, b.T)
	}
	return eq(a.T, b.T)
}

func (env *Env) binary(x *ast.BinaryExpr) Val {
	switch x.Op {
	case token.LAND:
		a, b := env.eval(x.X), env.eval(x.Y)
		return term(and(a.T, b.T), SBool, nil)
	case token.LOR:
		a, b := env.eval(x.X), env.eval(x.Y)
		return term(or(a.T, b.T), SBool, nil)
	case token.EQL:
		return term(env.eqTerms(env.eval(x.X), env.eval(x.Y)), SBool, nil)
	case token.NEQ:
		return term(not(env.eqTerms(env.eval(x.X), env.eval(x.Y))), SBool, nil)
	}
	a, b := env.eval(x.X), env.eval(x.Y)
	if a.S != SInt || b.S != SInt {
		if a.S == SBytes && b.S == SBytes && x.Op == token.ADD {
			return term(env.e.mkBconcat(env.st, a.T, b.T), SBytes, a.Typ)
		}
		env.fail("arithmetic on sorts %s, %s", a.S, b.S)
	}
	switch x.Op {
	case token.ADD:
		return term(fmt.Sprintf("(+ %s %s)", a.T, b.T), SInt, a.Typ)
	case token.SUB:
		return term(fmt.Sprintf("(- %s %s)", a.T, b.T), SInt, a.Typ)
	case token.MUL:
		return term(fmt.Sprintf("(* %s %s)", a.T, b.T), SInt, a.Typ)
	case token.QUO:
		return term(fmt.Sprintf("(godiv %s %s)", a.T, b.T), SInt, a.Typ)
	case token.REM:
		return term(fmt.Sprintf("(gomod %s %s)", a.T, b.T), SInt, a.Typ)
	case token.LSS:
		return term(fmt.Sprintf("(< %s %s)", a.T, b.T), SBool, nil)
	case token.LEQ:
		return term(fmt.Sprintf("(<= %s %s)", a.T, b.T), SBool, nil)
	case token.GTR:
		return term(fmt.Sprintf("(> %s %s)", a.T, b.T), SBool, nil)
	case token.GEQ:
		return term(fmt.Sprintf("(>= %s %s)", a.T, b.T), SBool, nil)
	}
	env.fail("binary operator %s", x.Op)
	return Val{}
}

// specSort resolves a sort name or Go type expression used in spec signatures.
func (e *Engine) specSort(name string, pkg *types.Package) (Sort, types.Type) {
	switch name {
	case "Int":
		return SInt, types.Typ[types.Int]
	case "Bool":
		return SBool, types.Typ[types.Bool]
	case "Bytes":
		return SBytes, types.NewSlice(types.Typ[types.Uint8])
	case "String":
		return SBytes, types.Typ[types.String]
	case "Ref":
		return SRef, nil
	case "Slice":
		return SSlice, nil
	case "Iface":
		return SIface, nil
	}
	switch name {
	case "IntRefArr":
		return "(Array Int Ref)", nil
	case "RefIntArr":
		return "(Array Ref Int)", nil
	case "RefRefArr":
		return "(Array Ref Ref)", nil
	case "IntIntArr":
		return "(Array Int Int)", nil
	case "RefBytesArr":
		return "(Array Ref Bytes)", nil
	case "IntBytesArr":
		return "(Array Int Bytes)", nil
	case "BytesBytesArr":
		return "(Array Bytes Bytes)", nil
	case "IntBoolArr":
		return "(Array Int Bool)", nil
	case "IntIfaceArr":
		return "(Array Int Iface)", nil
	case "BytesBoolArr":
		return "(Array Bytes Bool)", nil
	case "BytesIntArr":
		return "(Array Bytes Int)", nil
	}
	if strings.HasPrefix(name, "(Array ") {
		return Sort(name), nil
	}
	if strings.HasPrefix(name, "Array[") { // Array[K,V]
		inner := strings.TrimSuffix(strings.TrimPrefix(name, "Array["), "]")
		parts := splitTop(inner, ',')
		if len(parts) == 2 {
			ks, _ := e.specSort(strings.TrimSpace(parts[0]), pkg)
			vs, _ := e.specSort(strings.TrimSpace(parts[1]), pkg)
			return Sort(fmt.Sprintf("(Array %s %s)", ks, vs)), nil
		}
	}
	t := e.resolveType(name, pkg)
	if t == nil {
		panic(contractErr{"cannot resolve type " + name})
	}
	return e.d.SortOf(t), t
}

func (e *Engine) resolveType(name string, pkg *types.Package) types.Type {
	name = strings.TrimSpace(name)
	if strings.HasPrefix(name, "*") {
		t := e.resolveType(name[1:], pkg)
		if t == nil {
			return nil
		}
		return types.NewPointer(t)
	}
	if strings.HasPrefix(name, "[]") {
		t := e.resolveType(name[2:], pkg)
		if t == nil {
			return nil
		}
		return types.NewSlice(t)
	}
	if strings.HasPrefix(name, "map[") {
		depth, end := 0, -1
		for i := 3; i < len(name); i++ {
			if name[i] == '[' {
				depth++
			} else if name[i] == ']' {
				depth--
				if depth == 0 {
					end = i
					break
				}
			}
		}
		if end < 0 {
			return nil
		}
		k := e.resolveType(name[4:end], pkg)
		v := e.resolveType(name[end+1:], pkg)
		if k == nil || v == nil {
			return nil
		}
		return types.NewMap(k, v)
	}
	switch name {
	case "int":
		return types.Typ[types.Int]
	case "int64":
		return types.Typ[types.Int64]
	case "uint64":
		return types.Typ[types.Uint64]
	case "bool":
		return types.Typ[types.Bool]
	case "string":
		return types.Typ[types.String]
	case "byte":
		return types.Typ[types.Uint8]
	case "error":
		return types.Universe.Lookup("error").Type()
	}
	if i := strings.LastIndex(name, "."); i >= 0 {
		pn, tn := name[:i], name[i+1:]
		if full, ok := pkgAliases[pn]; ok {
			if sp, ok := e.pkgByPath[full]; ok {
				if obj := sp.Pkg.Scope().Lookup(tn); obj != nil {
					return obj.Type()
				}
			}
			return nil
		}
		if pkg != nil {
			for _, imp := range pkg.Imports() {
				if imp.Name() == pn || strings.HasSuffix(imp.Path(), "/"+pn) {
					if obj := imp.Scope().Lookup(tn); obj != nil {
						return obj.Type()
					}
				}
			}
		}
		for path, sp := range e.pkgByPath {
			if path == pn || strings.HasSuffix(path, "/"+pn) || sp.Pkg.Name() == pn {
				if obj := sp.Pkg.Scope().Lookup(tn); obj != nil {
					return obj.Type()
				}
			}
		}
		return nil
	}
	if pkg != nil {
		if obj := pkg.Scope().Lookup(name); obj != nil {
			return obj.Type()
		}
	}
	return nil
}

func (env *Env) call(x *ast.CallExpr) Val {
	e := env.e
	fname := ""
	switch f := x.Fun.(type) {
	case *ast.Ident:
		fname = f.Name
	case *ast.SelectorExpr:
		env.fail("method calls are not allowed in contracts (%s)", f.Sel.Name)
	default:
		env.fail("unsupported call form")
	}
	argn := func(n int) {
		if len(x.Args) != n {
			env.fail("%s expects %d arguments", fname, n)
		}
	}
	switch fname {
	case "implies__":
		argn(2)
		a, b := env.eval(x.Args[0]), env.eval(x.Args[1])
		return term(implies(a.T, b.T), SBool, nil)
	case "old":
		argn(1)
		n := *env
		n.inOld = true
		return n.eval(x.Args[0])
	case "len":
		argn(1)
		v := env.materialize(env.eval(x.Args[0]))
		switch v.S {
		case SBytes:
			e.bytesFacts(env.st, v.T)
			return term(app("blen", v.T), SInt, types.Typ[types.Int])
		case SSlice:
			return term(app("slen", v.T), SInt, types.Typ[types.Int])
		case SRef:
			if v.Typ != nil {
				if _, ok := v.Typ.Underlying().(*types.Map); ok {
					_, _, ln := e.d.MapHeaps(SInt, SInt)
					return term(fmt.Sprintf("(ite (= %s rnil) 0 %s)", v.T, sel(env.heapGet(ln), v.T)), SInt, types.Typ[types.Int])
				}
			}
		}
		if v.Typ != nil {
			if at, ok := v.Typ.Underlying().(*types.Array); ok {
				return term(fmt.Sprintf("%d", at.Len()), SInt, types.Typ[types.Int])
			}
		}
		env.fail("len of sort %s", v.S)
	case "cap":
		argn(1)
		v := env.eval(x.Args[0])
		if v.S == SSlice {
			return term(app("scap", v.T), SInt, types.Typ[types.Int])
		}
		e.needBcap()
		return term(app("bcap", v.T), SInt, types.Typ[types.Int])
	case "ite":
		argn(3)
		c, a, b := env.eval(x.Args[0]), env.materialize(env.eval(x.Args[1])), env.materialize(env.eval(x.Args[2]))
		if a.K == KUnit {
			a = term(e.d.Zero(b.S, b.Typ), b.S, b.Typ)
		}
		if b.K == KUnit {
			b = term(e.d.Zero(a.S, a.Typ), a.S, a.Typ)
		}
		return term(fmt.Sprintf("(ite %s %s %s)", c.T, a.T, b.T), a.S, a.Typ)
	case "forall", "exists":
		// forall(j, lo, hi, body)  |  forall(x, Sort, body)
		id, ok := x.Args[0].(*ast.Ident)
		if !ok {
			env.fail("%s: first argument must be an identifier", fname)
		}
		q := fname
		// optional trigger(t1, t2, ...) argument just before the body
		var trig []ast.Expr
		if len(x.Args) >= 3 {
			if ce, ok := x.Args[len(x.Args)-2].(*ast.CallExpr); ok {
				if fid, ok := ce.Fun.(*ast.Ident); ok && fid.Name == "trigger" {
					trig = ce.Args
					args := append([]ast.Expr{}, x.Args[:len(x.Args)-2]...)
					args = append(args, x.Args[len(x.Args)-1])
					x = &ast.CallExpr{Fun: x.Fun, Args: args}
				}
			}
		}
		pat := func(sub *Env) string {
			if len(trig) == 0 {
				return ""
			}
			var ts []string
			for _, t := range trig {
				ts = append(ts, sub.materialize(sub.eval(t)).T)
			}
			return " :pattern (" + strings.Join(ts, " ") + ")"
		}
		if len(x.Args) == 4 {
			lo, hi := env.eval(x.Args[1]), env.eval(x.Args[2])
			bv := "q_" + id.Name
			sub := env.sub(map[string]Val{id.Name: term(bv, SInt, types.Typ[types.Int])})
			body := sub.eval(x.Args[3])
			rng := fmt.Sprintf("(and (<= %s %s) (< %s %s))", lo.T, bv, bv, hi.T)
			if q == "forall" {
				if p := pat(sub); p != "" {
					return term(fmt.Sprintf("(forall ((%s Int)) (! (=> %s %s)%s))", bv, rng, body.T, p), SBool, nil)
				}
				return term(fmt.Sprintf("(forall ((%s Int)) (=> %s %s))", bv, rng, body.T), SBool, nil)
			}
			return term(fmt.Sprintf("(exists ((%s Int)) (and %s %s))", bv, rng, body.T), SBool, nil)
		}
		if len(x.Args) == 3 {
			sn := exprString(x.Args[1])
			s, typ := e.specSort(sn, env.pkg)
			bv := "q_" + id.Name
			sub := env.sub(map[string]Val{id.Name: term(bv, s, typ)})
			body := sub.eval(x.Args[2])
			if p := pat(sub); p != "" {
				return term(fmt.Sprintf("(%s ((%s %s)) (! %s%s))", q, bv, s, body.T, p), SBool, nil)
			}
			return term(fmt.Sprintf("(%s ((%s %s)) %s)", q, bv, s, body.T), SBool, nil)
		}
		env.fail("%s: wrong number of arguments", fname)
	case "bytesEq":
		argn(2)
		a, b := env.eval(x.Args[0]), env.eval(x.Args[1])
		return term(app("beq", a.T, b.T), SBool, nil)
	case "calls":
		argn(1)
		id, ok := x.Args[0].(*ast.Ident)
		if !ok {
			env.fail("calls(NAME)")
		}
		if env.calleeCalls != nil {
			// the counters of the callee's own activation: nothing is known about them here
			k := id.Name
			if env.inOld {
				k = "old:" + k
			}
			if t, ok := env.calleeCalls[k]; ok {
				return term(t, SInt, types.Typ[types.Int])
			}
			t := e.freshConst(env.st, "cc_"+id.Name, SInt)
			env.calleeCalls[k] = t
			return term(t, SInt, types.Typ[types.Int])
		}
		m := env.st.calls
		if env.inOld && env.old != nil {
			m = env.old.calls
		}
		if t, ok := m[id.Name]; ok {
			return term(t, SInt, types.Typ[types.Int])
		}
		return term("0", SInt, types.Typ[types.Int])
	case "alive":
		argn(1)
		v := env.eval(x.Args[0])
		return term(fmt.Sprintf("(< (stamp %s) %s)", v.T, env.alive()), SBool, nil)
	case "fresh":
		argn(1)
		v := env.materialize(env.eval(x.Args[0]))
		r := v.T
		if v.S == SSlice {
			r = app("sarr", v.T)
		}
		if env.old == nil {
			env.fail("fresh() needs a pre-state")
		}
		return term(and(not(eq(r, "rnil")), fmt.Sprintf("(>= (stamp %s) %s)", r, env.old.alive)), SBool, nil)
	case "store":
		argn(3)
		a, i, v := env.eval(x.Args[0]), env.eval(x.Args[1]), env.materialize(env.eval(x.Args[2]))
		if v.K == KUnit {
			es := elemSortOfArray(a.S)
			v = term(e.d.Zero(es, nil), es, nil)
		}
		return term(store(a.T, i.T, v.T), a.S, a.Typ)
	case "at":
		// at(s, p): element of slice s at ABSOLUTE backing-array position p (quantify p over off(s) .. off(s)+len(s))
		argn(2)
		v := env.materialize(env.eval(x.Args[0]))
		pp := env.eval(x.Args[1])
		if v.S != SSlice || v.Typ == nil {
			env.fail("at: not a slice")
		}
		et := elemType(v.Typ)
		if isStruct(et) {
			return term(e.mkERef(env.st, et, app("sarr", v.T), pp.T), SRef, ptrMarker{types.NewPointer(et)})
		}
		es := e.d.SortOf(et)
		return env.typed(term(sel(sel(env.heapGet(e.d.ElemHeapT(et)), app("sarr", v.T)), pp.T), es, et))
	case "off":
		argn(1)
		v := env.materialize(env.eval(x.Args[0]))
		return term(app("soff", v.T), SInt, types.Typ[types.Int])
	case "arr":
		argn(1)
		v := env.materialize(env.eval(x.Args[0]))
		return term(app("sarr", v.T), SRef, nil)
	case "has":
		// has(m, k): key k present in map m
		argn(2)
		m := env.eval(x.Args[0])
		k := env.eval(x.Args[1])
		mt, ok := m.Typ.Underlying().(*types.Map)
		if !ok {
			env.fail("has: not a map")
		}
		dom, _, _ := e.d.MapHeaps(e.mapKeySort(mt), e.d.SortOf(mt.Elem()))
		return term(and(not(eq(m.T, "rnil")), sel(sel(env.heapGet(dom), m.T), e.mapKey(mt, k))), SBool, nil)
	case "heap":
		// heap(Type.field): the current heap array of that field
		argn(1)
		se, ok := x.Args[0].(*ast.SelectorExpr)
		if !ok {
			env.fail("heap(Type.field)")
		}
		t := e.resolveType(exprString(se.X), env.pkg)
		if t == nil || !isStruct(t) {
			env.fail("heap: cannot resolve struct type %s", exprString(se.X))
		}
		stt := t.Underlying().(*types.Struct)
		for i := 0; i < stt.NumFields(); i++ {
			if stt.Field(i).Name() == se.Sel.Name {
				h, fs := e.d.FieldHeap(t, i)
				return term(env.heapGet(h), Sort(fmt.Sprintf("(Array Ref %s)", fs)), nil)
			}
		}
		env.fail("heap: no field %s", se.Sel.Name)
	case "elems":
		// elems(s): the backing array contents (Array Int T) of slice s
		argn(1)
		v := env.materialize(env.eval(x.Args[0]))
		if v.S != SSlice || v.Typ == nil {
			env.fail("elems of non-slice")
		}
		et := elemType(v.Typ)
		if isStruct(et) {
			env.fail("elems of []struct")
		}
		es := e.d.SortOf(et)
		return term(sel(env.heapGet(e.d.ElemHeapT(et)), app("sarr", v.T)), Sort(fmt.Sprintf("(Array Int %s)", es)), nil)
	case "box":
		argn(1)
		v := env.materialize(env.eval(x.Args[0]))
		if v.Typ == nil {
			env.fail("box of untyped value")
		}
		if v.S == SIface {
			return v
		}
		return e.makeIface(env.st, v, v.Typ, types.NewInterfaceType(nil, nil))
	case "as":
		// as(x, T): view the reference x as a value of Go type T (no check; for ghost/raw references)
		argn(2)
		v := env.eval(x.Args[0])
		t := e.resolveType(exprString(x.Args[1]), env.pkg)
		if t == nil {
			env.fail("as: cannot resolve %s", exprString(x.Args[1]))
		}
		if e.d.SortOf(t) != v.S {
			env.fail("as: sort mismatch (%s vs %s)", v.S, e.d.SortOf(t))
		}
		return term(v.T, v.S, t)
	case "sameDynType":
		argn(2)
		a, b := env.eval(x.Args[0]), env.eval(x.Args[1])
		return term(fmt.Sprintf("(= (ityp %s) (ityp %s))", a.T, b.T), SBool, nil)
	case "typeIs":
		// typeIs(x, T): dynamic type of interface value x is T
		argn(2)
		v := env.eval(x.Args[0])
		t := e.resolveType(exprString(x.Args[1]), env.pkg)
		if t == nil {
			env.fail("typeIs: cannot resolve %s", exprString(x.Args[1]))
		}
		_, _, id := e.ifaceBox(t)
		return term(fmt.Sprintf("(= (ityp %s) %d)", v.T, id), SBool, nil)
	case "unbox":
		argn(2)
		v := env.eval(x.Args[0])
		t := e.resolveType(exprString(x.Args[1]), env.pkg)
		if t == nil {
			env.fail("unbox: cannot resolve %s", exprString(x.Args[1]))
		}
		_, un, _ := e.ifaceBox(t)
		return term(app(un, v.T), e.d.SortOf(t), t)
	case "int", "int64", "uint64", "int32", "uint32", "uint", "uint8", "byte", "int8", "uint16", "int16":
		argn(1)
		v := env.eval(x.Args[0])
		return term(v.T, SInt, types.Typ[types.Int64])
	case "string":
		argn(1)
		v := env.eval(x.Args[0])
		return term(fmt.Sprintf("(ite (= (blen %s) 0) bempty %s)", v.T, v.T), SBytes, types.Typ[types.String])
	}
	if sf, ok := e.cs.Specs[fname]; ok {
		return env.applySpec(sf, x)
	}
	env.fail("unknown function %q in contract", fname)
	return Val{}
}

func exprString(x ast.Expr) string {
	switch x := x.(type) {
	case *ast.Ident:
		return x.Name
	case *ast.StarExpr:
		return "*" + exprString(x.X)
	case *ast.SelectorExpr:
		return exprString(x.X) + "." + x.Sel.Name
	case *ast.ArrayType:
		return "[]" + exprString(x.Elt)
	case *ast.ParenExpr:
		return exprString(x.X)
	case *ast.MapType:
		return "map[" + exprString(x.Key) + "]" + exprString(x.Value)
	}
	return fmt.Sprintf("%T", x)
}

func (env *Env) applySpec(sf *SpecFunc, x *ast.CallExpr) Val {
	e := env.e
	if len(x.Args) != len(sf.Params) {
		env.fail("%s expects %d arguments", sf.Name, len(sf.Params))
	}
	var pkg *types.Package
	if sp, ok := e.pkgByPath[sf.PkgPath]; ok {
		pkg = sp.Pkg
	} else {
		pkg = env.pkg
	}
	var args []Val
	for i, a := range x.Args {
		v := env.eval(a)
		ps, pt := e.specSort(sf.Params[i].Type, pkg)
		if v.K == KUnit && v.T == "nil" {
			v = term(e.d.Zero(ps, pt), ps, pt)
		}
		if _, isPM := v.Typ.(ptrMarker); isPM && ps != SRef {
			v = env.materialize(v)
		}
		if v.S != ps {
			env.fail("%s: argument %d has sort %s, want %s", sf.Name, i, v.S, ps)
		}
		if pt != nil {
			if _, isPM := v.Typ.(ptrMarker); !isPM {
				v.Typ = pt
			}
		}
		args = append(args, v)
	}
	rs, rt := e.specSort(sf.Result, pkg)
	if sf.Body == nil {
		var ss []Sort
		var ts []string
		for i, a := range args {
			s, _ := e.specSort(sf.Params[i].Type, pkg)
			ss = append(ss, s)
			ts = append(ts, a.T)
		}
		e.d.fun(sf.Name, ss, rs)
		return term(app(sf.Name, ts...), rs, rt)
	}
	// macro expansion
	if env.depth > 20 {
		env.fail("spec function recursion too deep (%s)", sf.Name)
	}
	vars := map[string]Val{}
	for i, p := range sf.Params {
		vars[p.Name] = args[i]
	}
	n := *env
	n.vars = vars
	n.pkg = pkg
	n.depth = env.depth + 1
	n.frame = nil
	saved := env.clause
	n.clause = sf.Body
	v := n.eval(sf.Body.Expr)
	env.clause = saved
	v = n.materialize(v)
	if v.S != rs {
		env.fail("%s: body has sort %s, declared %s", sf.Name, v.S, rs)
	}
	return v
}
