package main

import (
	"bytes"
	"context"
	"fmt"
	"os"
	"os/exec"
	"path/filepath"
	"strings"
	"sync"
	"time"
)

type Solver struct {
	Name string
	Cmd  func(file string, timeoutMs int) []string
}

var solvers = []Solver{
	{"z3-5.1.0", func(f string, t int) []string { return []string{"z3-new", "-smt2", fmt.Sprintf("-t:%d", t), f} }},
	{"z3-4.8.12", func(f string, t int) []string { return []string{"z3", "-smt2", fmt.Sprintf("-t:%d", t), f} }},
	{"cvc5-1.0.3", func(f string, t int) []string {
		return []string{"cvc5", "--lang", "smt2", "--incremental", fmt.Sprintf("--tlimit-per=%d", t), f}
	}},
}

type SolveCfg struct {
	WorkDir   string
	TimeoutMs int
	Jobs      int
	Prelude   string
	Keyed     func(body string) string
}

func scriptHeader(solver string) string {
	if strings.HasPrefix(solver, "cvc5") {
		return "(set-option :produce-models true)\n(set-logic ALL)\n"
	}
	return ""
}

// pathScript renders one incremental script for a path with the selected queries.
func pathScript(cfg *SolveCfg, p *PathResult, qs []*Query, solver string, withModel bool) string {
	var sb strings.Builder
	defer func() {}()
	sb.WriteString(scriptHeader(solver))
	sb.WriteString(cfg.Prelude)
	for _, d := range p.decls {
		sb.WriteString(d)
		sb.WriteString("\n")
	}
	sb.WriteString("@@KEYED@@\n")
	byIdx := map[int]*Query{}
	for _, q := range qs {
		byIdx[q.ItemIdx] = q
	}
	single := len(qs) == 1 // non-incremental script: z3 applies its full (stronger) pipeline without push/pop
	for i, it := range p.items {
		if it.Kind == ItAssert {
			sb.WriteString("(assert ")
			sb.WriteString(it.Text)
			sb.WriteString(")\n")
			continue
		}
		q, ok := byIdx[i]
		if !ok {
			continue
		}
		if single {
			fmt.Fprintf(&sb, "(echo \"@@ %d\")\n", q.ItemIdx)
			sb.WriteString("(assert (not ")
			sb.WriteString(it.Ob.Goal)
			sb.WriteString("))\n(check-sat)\n")
			if withModel {
				sb.WriteString("(get-model)\n")
			}
			break
		}
		sb.WriteString("(push 1)\n")
		fmt.Fprintf(&sb, "(echo \"@@ %d\")\n", q.ItemIdx)
		short := q.ExpectSat && !strings.HasPrefix(solver, "cvc5")
		if short {
			// vacuity probes (canary, requires-sat) are expected to be satisfiable: a quick "not unsat" suffices
			sb.WriteString("(set-option :timeout 400)\n")
		}
		sb.WriteString("(assert (not ")
		sb.WriteString(it.Ob.Goal)
		sb.WriteString("))\n(check-sat)\n")
		if withModel {
			sb.WriteString("(get-model)\n")
		}
		if short {
			fmt.Fprintf(&sb, "(set-option :timeout %d)\n", cfg.TimeoutMs)
		}
		sb.WriteString("(pop 1)\n")
	}
	body := sb.String()
	return strings.Replace(body, "@@KEYED@@\n", cfg.Keyed(body), 1)
}

func lemmaScript(cfg *SolveCfg, q *Query, solver string, withModel bool) string {
	var sb strings.Builder
	sb.WriteString(scriptHeader(solver))
	sb.WriteString(cfg.Prelude)
	for _, d := range q.Decls {
		sb.WriteString(d)
		sb.WriteString("\n")
	}
	sb.WriteString("@@KEYED@@\n")
	fmt.Fprintf(&sb, "(echo \"@@ %d\")\n", q.ItemIdx)
	sb.WriteString("(assert (not ")
	sb.WriteString(q.Ob.Goal)
	sb.WriteString("))\n(check-sat)\n")
	if withModel {
		sb.WriteString("(get-model)\n")
	}
	body := sb.String()
	return strings.Replace(body, "@@KEYED@@\n", cfg.Keyed(body), 1)
}

type rawAnswer struct {
	status string
	model  string
}

func runSolver(ctx context.Context, s Solver, file string, timeoutMs int) (map[int]rawAnswer, string, error) {
	args := s.Cmd(file, timeoutMs)
	cmd := exec.CommandContext(ctx, args[0], args[1:]...)
	var out bytes.Buffer
	cmd.Stdout = &out
	cmd.Stderr = &out
	err := cmd.Run()
	_ = err // z3 4.8.12 exits 1 on get-model after unsat
	res := map[int]rawAnswer{}
	lines := strings.Split(out.String(), "\n")
	cur := -1
	var errs []string
	for i := 0; i < len(lines); i++ {
		l := strings.TrimSpace(lines[i])
		l = strings.Trim(l, "\"")
		if strings.HasPrefix(l, "@@ ") {
			fmt.Sscanf(l, "@@ %d", &cur)
			continue
		}
		switch l {
		case "sat", "unsat", "unknown", "timeout":
			if cur >= 0 {
				a := res[cur]
				if a.status == "" {
					a.status = l
				}
				res[cur] = a
			}
		default:
			if strings.HasPrefix(l, "(error") {
				if strings.Contains(l, "model is not available") || strings.Contains(l, "Cannot get model") || strings.Contains(l, "cannot get model") {
					continue
				}
				errs = append(errs, l)
			} else if cur >= 0 && l != "" {
				a := res[cur]
				if a.status == "sat" || a.status == "unknown" {
					a.model += lines[i] + "\n"
					res[cur] = a
				}
			}
		}
	}
	var e error
	if len(errs) > 0 {
		e = fmt.Errorf("%s", strings.Join(errs, "; "))
	}
	return res, out.String(), e
}

// SolveAll discharges all queries. First pass: one incremental z3 script per path. Second pass:
// every non-unsat (or unexpectedly unsat) answer is retried alone, racing all three solvers, with models.
func SolveAll(cfg *SolveCfg, results []*FuncResult) error {
	os.MkdirAll(cfg.WorkDir, 0o755)
	type job struct {
		p  *PathResult
		qs []*Query
		id string
	}
	var jobs []job
	var singles []*Query
	n := 0
	for _, r := range results {
		byPath := map[*PathResult][]*Query{}
		var order []*PathResult
		for _, q := range r.Queries {
			if q.Backend == "structural" {
				continue
			}
			if q.Path == nil {
				singles = append(singles, q)
				continue
			}
			if _, ok := byPath[q.Path]; !ok {
				order = append(order, q.Path)
			}
			byPath[q.Path] = append(byPath[q.Path], q)
		}
		for _, p := range order {
			n++
			jobs = append(jobs, job{p, byPath[p], fmt.Sprintf("p%05d", n)})
		}
	}
	var mu sync.Mutex
	var firstErr error
	sem := make(chan struct{}, cfg.Jobs)
	var wg sync.WaitGroup
	for _, j := range jobs {
		wg.Add(1)
		sem <- struct{}{}
		go func(j job) {
			defer wg.Done()
			defer func() { <-sem }()
			file := filepath.Join(cfg.WorkDir, j.id+".smt2")
			os.WriteFile(file, []byte(pathScript(cfg, j.p, j.qs, solvers[0].Name, false)), 0o644)
			t0 := time.Now()
			ctx, cancel := context.WithTimeout(context.Background(), time.Duration(cfg.TimeoutMs*(len(j.qs)+2))*time.Millisecond)
			ans, raw, err := runSolver(ctx, solvers[0], file, cfg.TimeoutMs)
			cancel()
			dt := time.Since(t0).Seconds()
			mu.Lock()
			defer mu.Unlock()
			if err != nil && firstErr == nil {
				firstErr = fmt.Errorf("solver error in %s: %v", file, err)
			}
			_ = raw
			for _, q := range j.qs {
				a, ok := ans[q.ItemIdx]
				q.ScriptFile = file
				q.Backend = solvers[0].Name
				q.Time = dt / float64(len(j.qs))
				if !ok || a.status == "" {
					q.Status = "unknown"
				} else {
					q.Status = a.status
				}
			}
			if firstErr == nil {
				ok := true
				for _, q := range j.qs {
					if q.Status != "unsat" {
						ok = false
					}
				}
				if ok && os.Getenv("VERIF_KEEP") == "" {
					os.Remove(file)
				}
			}
		}(j)
	}
	wg.Wait()
	if firstErr != nil {
		return firstErr
	}
	// second pass
	var retry []*Query
	for _, r := range results {
		for _, q := range r.Queries {
			if q.Backend == "structural" {
				continue
			}
			if q.ExpectSat {
				continue // "not proved" is the expected answer for vacuity probes
			}
			if q.Path == nil || (q.Status != "unsat") {
				retry = append(retry, q)
			}
		}
	}
	for i, q := range retry {
		wg.Add(1)
		sem <- struct{}{}
		go func(i int, q *Query) {
			defer wg.Done()
			defer func() { <-sem }()
			raceQuery(cfg, q, fmt.Sprintf("r%05d", i))
		}(i, q)
	}
	wg.Wait()
	return firstErr
}

func raceQuery(cfg *SolveCfg, q *Query, id string) {
	type outcome struct {
		solver string
		a      rawAnswer
		dt     float64
		err    error
		file   string
	}
	ctx, cancel := context.WithCancel(context.Background())
	defer cancel()
	ch := make(chan outcome, len(solvers))
	for _, s := range solvers {
		go func(s Solver) {
			var script string
			if q.Path != nil {
				script = pathScript(cfg, q.Path, []*Query{q}, s.Name, true)
			} else {
				script = lemmaScript(cfg, q, s.Name, true)
			}
			file := filepath.Join(cfg.WorkDir, id+"."+s.Name+".smt2")
			os.WriteFile(file, []byte(script), 0o644)
			t0 := time.Now()
			// (three times the first-pass limit: a query that one back end decides near the limit on an idle machine must not
			// flip to "unknown" on a loaded one)
			c2, cancel2 := context.WithTimeout(ctx, time.Duration(3*cfg.TimeoutMs+2000)*time.Millisecond)
			ans, _, err := runSolver(c2, s, file, 3*cfg.TimeoutMs)
			cancel2()
			a := ans[q.ItemIdx]
			ch <- outcome{s.Name, a, time.Since(t0).Seconds(), err, file}
		}(s)
	}
	var sats, unsats []outcome
	var all []outcome
	for range solvers {
		o := <-ch
		all = append(all, o)
		if o.err != nil {
			continue
		}
		switch o.a.status {
		case "unsat":
			unsats = append(unsats, o)
		case "sat":
			sats = append(sats, o)
		}
		if len(unsats) > 0 || len(sats) > 0 {
			// first definitive answer wins; keep listening briefly is unnecessary
			break
		}
	}
	cancel()
	switch {
	case len(unsats) > 0 && len(sats) > 0:
		q.Status = "disagree"
		q.Backend = unsats[0].solver + " vs " + sats[0].solver
	case len(unsats) > 0:
		q.Status = "unsat"
		q.Backend = unsats[0].solver
		q.Time = unsats[0].dt
		q.ScriptFile = unsats[0].file
	case len(sats) > 0:
		q.Status = "sat"
		q.Backend = sats[0].solver
		q.Time = sats[0].dt
		q.Model = sats[0].a.model
		q.ScriptFile = sats[0].file
	default:
		// third pass: no solver was definitive — retry z3 with other random seeds and a longer limit
		if seedRetry(cfg, q, id) {
			return
		}
		q.Status = "unknown"
		q.Backend = "all"
		var msgs []string
		for _, o := range all {
			st := o.a.status
			if st == "" {
				st = "timeout"
			}
			if o.err != nil {
				st += " (" + o.err.Error() + ")"
			}
			msgs = append(msgs, o.solver+": "+st)
			q.ScriptFile = o.file
		}
		q.Model = strings.Join(msgs, "; ")
	}
	// remove script files of proved queries
	if q.Status == "unsat" && os.Getenv("VERIF_KEEP") == "" {
		for _, o := range all {
			os.Remove(o.file)
		}
	}
	if os.Getenv("VERIF_KEEP") != "" {
		os.WriteFile(filepath.Join(cfg.WorkDir, id+".name"), []byte(q.Ob.Name+"\n"), 0o644)
	}
}

// MakePruner returns a feasibility oracle for the two outcomes of a branch condition. It answers "infeasible"
// only when z3 proves facts && cond unsat; quantified facts are dropped (sound for pruning: fewer facts).
func MakePruner(e *Engine, workDir string, timeoutMs int) func(st *State, cond string) (bool, bool) {
	os.MkdirAll(workDir, 0o755)
	n := 0
	return func(st *State, cond string) (bool, bool) {
		n++
		var sb strings.Builder
		sb.WriteString(e.d.PreludeQF())
		for _, d := range st.decls {
			sb.WriteString(d)
			sb.WriteString("\n")
		}
		for _, it := range st.items {
			if it.Kind == ItAssert && !strings.Contains(it.Text, "(forall ") && !strings.Contains(it.Text, "(exists ") {
				sb.WriteString("(assert " + it.Text + ")\n")
			}
		}
		sb.WriteString("(push 1)\n(echo \"@@ 0\")\n(assert " + cond + ")\n(check-sat)\n(pop 1)\n")
		sb.WriteString("(push 1)\n(echo \"@@ 1\")\n(assert (not " + cond + "))\n(check-sat)\n(pop 1)\n")
		file := filepath.Join(workDir, fmt.Sprintf("feas%d.smt2", n%64))
		os.WriteFile(file, []byte(sb.String()), 0o644)
		ctx, cancel := context.WithTimeout(context.Background(), time.Duration(2*timeoutMs+500)*time.Millisecond)
		defer cancel()
		ans, _, err := runSolver(ctx, solvers[0], file, timeoutMs)
		if err != nil {
			return true, true
		}
		return ans[0].status != "unsat", ans[1].status != "unsat"
	}
}

func seedRetry(cfg *SolveCfg, q *Query, id string) bool {
	type res struct {
		st   string
		name string
		dt   float64
		file string
		model string
	}
	var script string
	if q.Path != nil {
		script = pathScript(cfg, q.Path, []*Query{q}, "z3", true)
	} else {
		script = lemmaScript(cfg, q, "z3", true)
	}
	file := filepath.Join(cfg.WorkDir, id+".retry.smt2")
	os.WriteFile(file, []byte(script), 0o644)
	ctx, cancel := context.WithCancel(context.Background())
	defer cancel()
	seeds := []int{1, 7, 42, 1234}
	ch := make(chan res, 2*len(seeds))
	n := 0
	for _, bin := range []string{"z3-new", "z3"} {
		for _, sd := range seeds {
			n++
			go func(bin string, sd int) {
				t0 := time.Now()
				s := Solver{Name: fmt.Sprintf("%s(seed %d)", bin, sd), Cmd: func(f string, t int) []string {
					return []string{bin, "-smt2", fmt.Sprintf("-t:%d", t), fmt.Sprintf("smt.random_seed=%d", sd), fmt.Sprintf("sat.random_seed=%d", sd), f}
				}}
				c2, cancel2 := context.WithTimeout(ctx, time.Duration(3*cfg.TimeoutMs+2000)*time.Millisecond)
				ans, _, err := runSolver(c2, s, file, 3*cfg.TimeoutMs)
				cancel2()
				a := ans[q.ItemIdx]
				if err != nil {
					a.status = "error"
				}
				ch <- res{a.status, s.Name, time.Since(t0).Seconds(), file, a.model}
			}(bin, sd)
		}
	}
	for i := 0; i < n; i++ {
		r := <-ch
		if r.st == "unsat" || r.st == "sat" {
			q.Status = r.st
			q.Backend = map[bool]string{true: "z3-5.1.0", false: "z3-4.8.12"}[strings.HasPrefix(r.name, "z3-new")] 
			q.Time = r.dt
			q.Model = r.model
			q.ScriptFile = file
			if r.st == "unsat" {
				os.Remove(file)
			}
			return true
		}
	}
	return false
}
